"""Behaviour-preserving pre-pass on the parsed package (DESIGN 8.1): the rules describe the library in terms of the private helpers that
exist at the pinned commit; a maintainer may rename one of them or extract a new one.  Before the model is indexed

  1. a private helper of the pinned tree that is missing, when exactly one new private helper with the same arity appeared in the same
     class / module, is treated as renamed: the new name is rewritten to the old one everywhere in the package;
  2. calls of every *other* new private helper (a function, method or nested def that is not part of the pinned tree's private API) are
     inlined into their callers when the helper is
       (A) an expression helper -- optional single-assignment locals followed by one `return <expr>` -- at any call site, or
       (B) a statement helper called as a whole statement (`return h(..)`, `x = h(..)`, `a, b = h(..)`, `h(..)`), early returns being
           turned into if/else;
     the helper itself stays in the model (effect / termination / raise rules still see its body);
  3. `Cls.method(obj, ...)` with `method` an instance method of a package class is written `obj.method(...)`.

Nothing is executed; the transformation is on the AST only and keeps the source positions of the inlined statements."""
import ast

from .model import astcopy

# private API of the pinned tree: (class or None, name) -> number of positional parameters (with the receiver)
KNOWN_PARAMS = {
    ('AnsiString', '_apply_string_format'): ('self', 'string_format', 'settings'),
    ('AnsiString', '_find_setting_reference'): ('find', 'in_list'),
    ('AnsiString', '_find_settings_references'): ('find_list', 'in_list'),
    ('AnsiString', '_shift_settings_idx'): ('self', 'num', 'keep_origin'),
    ('AnsiString', '_slice_val_to_idx'): ('self', 'val', 'default'),
    ('AnsiString', '_split'): ('self', 'sep', 'maxsplit', 'r'),
    ('AnsiString', '_strip'): ('self', 'chars', 'inplace', 'do_lstrip', 'do_rstrip'),
    ('_AnsiSettingPoint', '_parse_rgb_string'): ('s',),
    ('_AnsiSettingPoint', '_scrub_ansi_format_int'): ('ansi_format',),
    ('_AnsiSettingPoint', '_scrub_ansi_format_string'): ('ansi_format', 'make_unique'),
    ('_AnsiSettingPoint', '_scrub_ansi_settings'): ('settings', 'make_unique', 'parsed_ids'),
}
KNOWN_PRIVATE = set(KNOWN_PARAMS)
PINNED_CLASSES = {'AnsiString', 'AnsiStr', '_AnsiSettingPoint', '_AnsiSettingsIterator', '_AnsiCharIterator', '_AnsiStrCharIterator', '_AnsiControlFn',
                  'AnsiFormat', 'AnsiSetting', 'AnsiParam', 'AnsiParamEffect', 'AnsiParamEffectFn', 'ColorComponentType', 'ColourComponentType',
                  'ParsedAnsiControlSequenceString', 'AnsiControlSequence'}
# private classes of the pinned tree are resolved as roles by the model; their names are not touched here.

MAX_ROUNDS = 4
MAX_BODY = 40          # statements (flattened) of a helper that is still inlined


def _is_private(name):
    return name.startswith('_') and not name.startswith('__')


def _decorators(fd):
    return {ast.unparse(d) for d in fd.decorator_list}


class _Helper:
    def __init__(self, cls, fd, module):
        self.cls = cls
        self.fd = fd
        self.name = fd.name
        self.module = module
        dec = _decorators(fd)
        self.static = 'staticmethod' in dec
        self.classmethod = 'classmethod' in dec
        self.other_decorators = dec - {'staticmethod', 'classmethod'}
        a = fd.args
        self.params = [x.arg for x in a.posonlyargs + a.args]
        self.kwonly = [x.arg for x in a.kwonlyargs]
        self.vararg = a.vararg.arg if a.vararg else None
        self.kwarg = a.kwarg.arg if a.kwarg else None
        self.defaults = {}
        pos = a.posonlyargs + a.args
        for p, d in zip(pos[len(pos) - len(a.defaults):], a.defaults):
            self.defaults[p.arg] = d
        for p, d in zip(a.kwonlyargs, a.kw_defaults):
            if d is not None:
                self.defaults[p.arg] = d

    @property
    def body(self):
        b = self.fd.body
        if b and isinstance(b[0], ast.Expr) and isinstance(b[0].value, ast.Constant) and isinstance(b[0].value.value, str):
            return b[1:]
        return b


def _walk_no_defs(stmts):
    stack = list(reversed(stmts))
    while stack:
        n = stack.pop()
        yield n
        if isinstance(n, (ast.FunctionDef, ast.AsyncFunctionDef, ast.ClassDef, ast.Lambda)):
            continue
        for c in reversed(list(ast.iter_child_nodes(n))):
            if isinstance(c, (ast.FunctionDef, ast.AsyncFunctionDef, ast.ClassDef, ast.Lambda)):
                continue
            stack.append(c)


def _hoisted_locals(fd, log=None):
    """`x = <expression>` at the top level of a function, x bound nowhere else, where the expression keeps its value from there to the
    end of the function: built from constants, module-level names, parameters and locals that are not re-bound afterwards, attributes
    of objects that are not changed afterwards (no attribute store through them, no method call on them, not passed on), len() / str()
    / int(), arithmetic, comparisons, not / and / or and conditionals (also in the statement form `if c: x = a else: x = b`).
    x is then a name for that expression: the expression is written where x is read and the binding dropped, so `old_len = len(old)`
    or `text = obj._s` hoisted out of a loop read like the expressions they stand for."""
    a = fd.args
    params = {x.arg for x in a.posonlyargs + a.args + a.kwonlyargs} | ({a.vararg.arg} if a.vararg else set()) | ({a.kwarg.arg} if a.kwarg else set())
    if any(isinstance(n, (ast.FunctionDef, ast.AsyncFunctionDef, ast.Lambda, ast.Global, ast.Nonlocal)) for n in ast.walk(fd) if n is not fd):
        return
    skip = (ast.expr_context, ast.operator, ast.cmpop, ast.boolop, ast.unaryop)
    self_name = a.args[0].arg if a.args and a.args[0].arg in ('self', 'cls') else None
    immutable = {x.arg for x in a.posonlyargs + a.args + a.kwonlyargs if x.annotation is not None and
                 ast.unparse(x.annotation).replace("'", '') in ('str', 'int', 'bool', 'bytes', 'Optional[str]', 'Optional[int]')}
    # names whose object is also reachable under another name: bound to a bare name, or put into a container
    aliased = set()
    for n in _walk_no_defs(fd.body):
        if isinstance(n, ast.Assign) and isinstance(n.value, ast.Name):
            aliased.add(n.value.id)
        if isinstance(n, (ast.List, ast.Tuple, ast.Set, ast.Dict)) and isinstance(getattr(n, 'ctx', ast.Load()), ast.Load):
            for x in (n.elts if not isinstance(n, ast.Dict) else n.values):
                if isinstance(x, ast.Name):
                    aliased.add(x.id)
        if isinstance(n, (ast.Return, ast.Yield)) and isinstance(n.value, ast.Name):
            aliased.add(n.value.id)

    def index():
        return {id(n): i for i, n in enumerate(_walk_no_defs(fd.body)) if not isinstance(n, skip)}
    for _round in range(12):
        order = index()
        nodes = [n for n in _walk_no_defs(fd.body) if not isinstance(n, skip)]
        sto = _stores(fd.body)
        done = False
        for st in list(fd.body):
            name, parts = None, None
            if isinstance(st, ast.Assign) and len(st.targets) == 1 and isinstance(st.targets[0], ast.Name) and sto.get(st.targets[0].id) == 1 and \
                    (not isinstance(st.value, (ast.Constant, ast.Name)) or
                     (isinstance(st.value, ast.Constant) and (st.value.value is None or isinstance(st.value.value, (bool, int))))):
                name, parts = st.targets[0].id, [st.value]
            elif isinstance(st, ast.If) and len(st.body) == 1 and len(st.orelse) == 1 and all(
                    isinstance(b, ast.Assign) and len(b.targets) == 1 and isinstance(b.targets[0], ast.Name) for b in (st.body[0], st.orelse[0])) and \
                    st.body[0].targets[0].id == st.orelse[0].targets[0].id and sto.get(st.body[0].targets[0].id) == 2:
                name, parts = st.body[0].targets[0].id, [st.test, st.body[0].value, st.orelse[0].value]
            if name is None or name in params:
                continue
            last = max(order[id(n)] for n in ast.walk(st) if id(n) in order)
            later = [n for n in nodes if order[id(n)] > last]
            rebound = {n.id for n in later if isinstance(n, ast.Name) and isinstance(n.ctx, (ast.Store, ast.Del))}
            changed = set()         # names whose object may change after the statement
            changed_paths = set()
            attr_stored = set()
            item_changed, attr_changed, call_changed = set(), set(), set()
            for n in later:
                if isinstance(n, (ast.Attribute, ast.Subscript)) and isinstance(n.ctx, (ast.Store, ast.Del)):
                    r_ = n.value
                    while isinstance(r_, (ast.Attribute, ast.Subscript)):
                        r_ = r_.value
                    if isinstance(r_, ast.Name):
                        changed.add(r_.id)
                        if isinstance(n, ast.Subscript):
                            item_changed.add(r_.id)         # an element of a container reached through the name is stored: no attribute is re-bound by that
                        else:
                            attr_changed.add(r_.id)
                    if isinstance(n, ast.Attribute):
                        attr_stored.add(n.attr)
                if isinstance(n, ast.Call):
                    if isinstance(n.func, ast.Attribute):
                        r_ = n.func.value
                        first_ = None
                        while isinstance(r_, (ast.Attribute, ast.Subscript)):
                            if isinstance(r_, ast.Attribute):
                                first_ = r_.attr
                            r_ = r_.value
                        if isinstance(r_, ast.Name):
                            if first_ is None:
                                changed.add(r_.id)
                                call_changed.add(r_.id)
                            else:
                                changed_paths.add((r_.id, first_))      # obj.field.method(): obj.field may change, obj's other fields do not
                    if not (isinstance(n.func, ast.Name) and n.func.id in ('len', 'str', 'int', 'isinstance', 'bool', 'range', 'enumerate', 'min', 'max')):
                        for a_ in list(n.args) + [k.value for k in n.keywords]:
                            if isinstance(a_, ast.Name):
                                changed.add(a_.id)
                            elif isinstance(a_, ast.Starred) and isinstance(a_.value, ast.Name):
                                changed.add(a_.value.id)
                if isinstance(n, ast.AugAssign) and isinstance(n.target, ast.Name):
                    changed.add(n.target.id)

            def pure(e, value_only=True):
                if isinstance(e, ast.Constant):
                    return True
                if isinstance(e, ast.Name):
                    if not isinstance(e.ctx, ast.Load) or e.id in rebound:
                        return False
                    return e.id not in sto or not value_only       # a bare local is not read through (it is a name of its own); a parameter or a global is
                if isinstance(e, ast.Attribute):
                    r_ = e
                    while isinstance(r_, ast.Attribute):
                        if r_.attr in attr_stored:
                            return False
                        r_ = r_.value
                    if not isinstance(r_, ast.Name) or r_.id in rebound:
                        return False
                    if r_.id in sto or r_.id in params:
                        if r_.id in changed and not (value_only is False or True) :
                            return False
                        if r_.id in call_changed or r_.id in attr_changed:
                            return False
                        if r_.id in changed and r_.id not in item_changed:
                            return False            # changed in some other way (passed on to a call, augmented)
                        x_ = e
                        while isinstance(x_.value, ast.Attribute):
                            x_ = x_.value
                        return (r_.id, x_.attr) not in changed_paths
                    return True         # a module-level constant chain: AnsiParam.RESET.value
                if isinstance(e, ast.Call):
                    if not (isinstance(e.func, ast.Name) and e.func.id in ('len', 'str', 'int') and e.func.id not in sto and e.func.id not in params and
                            len(e.args) == 1 and not e.keywords):
                        return False
                    a0 = e.args[0]
                    if isinstance(a0, ast.Name) and a0.id in immutable and a0.id not in sto:
                        return True           # a parameter annotated str / int / bool / bytes: its length cannot change
                    if isinstance(a0, ast.Name) and (a0.id in sto or a0.id in params):
                        if a0.id in changed:
                            return False      # len(obj) of an object that is changed later
                        if attr_stored and not (a0.id in params and a0.id not in sto and a0.id != self_name and a0.id not in aliased):
                            return False      # ... or that may be changed later under another name
                    return pure(a0, value_only=False)
                if isinstance(e, ast.UnaryOp):
                    return isinstance(e.op, (ast.Not, ast.USub)) and pure(e.operand)
                if isinstance(e, ast.BinOp):
                    if isinstance(e.op, ast.Mult):        # a literal repeated / scaled: ' ' * tabsize
                        return (isinstance(e.left, ast.Constant) or isinstance(e.right, ast.Constant)) and pure(e.left) and pure(e.right)
                    return isinstance(e.op, (ast.Add, ast.Sub)) and pure(e.left) and pure(e.right)
                if isinstance(e, ast.BoolOp):
                    return all(pure(v) for v in e.values)
                if isinstance(e, ast.Compare):
                    return pure(e.left) and all(pure(c) for c in e.comparators) and \
                        all(isinstance(o, (ast.Eq, ast.NotEq, ast.Lt, ast.LtE, ast.Gt, ast.GtE, ast.Is, ast.IsNot)) for o in e.ops)
                if isinstance(e, ast.IfExp):
                    return pure(e.test) and pure(e.body) and pure(e.orelse)
                return False
            alias_of_attr = len(parts) == 1 and isinstance(parts[0], ast.Attribute)

            def alias_ok(e):
                # `t = obj.table`: a second name for the container itself -- element stores and method calls through either name reach the same object;
                # what must not happen is that the attribute is re-bound, or that a method of obj (which may re-bind it) runs
                r_ = e
                while isinstance(r_, ast.Attribute):
                    if r_.attr in attr_stored:
                        return False
                    r_ = r_.value
                return isinstance(r_, ast.Name) and r_.id not in rebound and r_.id not in call_changed and r_.id not in attr_changed and \
                    not any(isinstance(n, ast.Call) and not (isinstance(n.func, ast.Name) and n.func.id in ('len', 'str', 'int', 'isinstance', 'bool', 'range', 'enumerate', 'min', 'max'))
                            and any(isinstance(a_, ast.Name) and a_.id == r_.id for a_ in list(n.args) + [k.value for k in n.keywords]) for n in later)
            if alias_of_attr and alias_ok(parts[0]):
                pass
            elif not all(pure(p_) for p_ in parts):
                continue
            if len(parts) == 3 and any(isinstance(x, (ast.Attribute, ast.Name)) for x in parts[1:]):
                continue        # a choice between two objects (one of two lists) stays a local of its own
            loads = [n for n in nodes if isinstance(n, ast.Name) and n.id == name and isinstance(n.ctx, ast.Load)]
            if not loads or any(order[id(n)] <= last for n in loads):
                continue
            expr = parts[0] if len(parts) == 1 else ast.IfExp(test=parts[0], body=parts[1], orelse=parts[2])
            fd.body = [_Subst({name: expr}).visit(b) for b in fd.body if b is not st]
            if log is not None:
                log.append('# hoisted local %s read as %s in %s' % (name, ast.unparse(expr), fd.name))
            done = True
            break
        if not done:
            break


def _block_locals(fd, log=None):
    """`x = <slice / arithmetic / len() of names>` inside a nested block, x bound nowhere else and read only later in that block, the operands
    neither re-bound nor changed between the binding and the end of the block, x itself never changed or given another name: x is a name for the
    expression within the block (`rest = items[idx:]` hoisted out of an inner loop).  The expression is written where x is read."""
    a = fd.args
    params = {x.arg for x in a.posonlyargs + a.args + a.kwonlyargs} | ({a.vararg.arg} if a.vararg else set()) | ({a.kwarg.arg} if a.kwarg else set())
    if any(isinstance(n, (ast.FunctionDef, ast.AsyncFunctionDef, ast.Lambda, ast.Global, ast.Nonlocal)) for n in ast.walk(fd) if n is not fd):
        return
    immutable_params = {x.arg for x in a.posonlyargs + a.args + a.kwonlyargs if x.annotation is not None and
                        ast.unparse(x.annotation).replace("'", '') in ('str', 'int', 'bool', 'bytes', 'Optional[str]', 'Optional[int]')}
    MUT = ('append', 'extend', 'insert', 'pop', 'remove', 'clear', 'sort', 'reverse', 'update', 'setdefault', 'popitem', 'add', 'discard')
    SAFE = ('len', 'str', 'int', 'isinstance', 'bool', 'range', 'enumerate', 'min', 'max', 'sorted', 'list', 'tuple', 'any', 'all', 'zip', 'reversed')

    def simple(e):
        if isinstance(e, (ast.Constant, ast.Name)):
            return isinstance(e, ast.Constant) or isinstance(e.ctx, ast.Load)
        if isinstance(e, ast.Attribute):
            return simple(e.value)
        if isinstance(e, ast.Subscript):
            sl = e.slice
            parts = [sl.lower, sl.upper, sl.step] if isinstance(sl, ast.Slice) else [sl]
            return simple(e.value) and all(p is None or simple(p) for p in parts)
        if isinstance(e, ast.BinOp):
            return isinstance(e.op, (ast.Add, ast.Sub)) and simple(e.left) and simple(e.right)
        if isinstance(e, ast.Call):
            return isinstance(e.func, ast.Name) and e.func.id == 'len' and len(e.args) == 1 and not e.keywords and simple(e.args[0])
        if isinstance(e, ast.IfExp):
            return simple(e.test) and simple(e.body) and simple(e.orelse)
        if isinstance(e, ast.UnaryOp):
            return isinstance(e.op, (ast.Not, ast.USub)) and simple(e.operand)
        if isinstance(e, ast.Compare):
            return simple(e.left) and all(simple(c) for c in e.comparators)
        return False

    def root(e):
        while isinstance(e, (ast.Attribute, ast.Subscript)):
            e = e.value
        return e.id if isinstance(e, ast.Name) else None

    for _round in range(8):
        sto = _stores(fd.body)
        done = False
        for holder in [n for n in _walk_no_defs(fd.body) if isinstance(n, (ast.If, ast.For, ast.While, ast.With, ast.Try))]:
            for fld in ('body', 'orelse', 'finalbody'):
                blk = getattr(holder, fld, None)
                if not isinstance(blk, list):
                    continue
                for i, st in enumerate(blk):
                    if isinstance(st, ast.If) and len(st.body) == 1 and len(st.orelse) == 1 and all(
                            isinstance(b, ast.Assign) and len(b.targets) == 1 and isinstance(b.targets[0], ast.Name) for b in (st.body[0], st.orelse[0])) and \
                            st.body[0].targets[0].id == st.orelse[0].targets[0].id and sto.get(st.body[0].targets[0].id) == 2 and \
                            isinstance(st.body[0].value, ast.Constant) and isinstance(st.orelse[0].value, ast.Constant):
                        # `x = A if C else B` (written as if / else by the statement normal form) with literal A, B: a named choice
                        st = ast.copy_location(ast.Assign(targets=[ast.Name(id=st.body[0].targets[0].id, ctx=ast.Store())], value=ast.IfExp(
                            test=st.test, body=st.body[0].value, orelse=st.orelse[0].value), type_comment=None), st)
                        ast.fix_missing_locations(st)
                        name = st.targets[0].id
                        if name in params or not simple(st.value):
                            continue
                    else:
                        if not (isinstance(st, ast.Assign) and len(st.targets) == 1 and isinstance(st.targets[0], ast.Name)):
                            continue
                        name = st.targets[0].id
                        if sto.get(name) != 1 or name in params or not isinstance(st.value, (ast.Subscript, ast.BinOp, ast.Call)) or not simple(st.value):
                            continue
                        if not any(isinstance(x, (ast.Subscript, ast.Call)) for x in ast.walk(st.value)):
                            continue            # plain arithmetic on counters stays a local (it is usually a counter itself)
                    later = [n for b in blk[i + 1:] for n in _walk_no_defs([b])]
                    later_ids = {id(n) for n in later}
                    loads = [n for n in _walk_no_defs(fd.body) if isinstance(n, ast.Name) and n.id == name and isinstance(n.ctx, ast.Load)]
                    if not loads or any(id(n) not in later_ids for n in loads):
                        continue
                    ops = {n.id for n in ast.walk(st.value) if isinstance(n, ast.Name)}
                    bad = False
                    # what may not change the operands: everything between the binding and the last read, in program order (pre-order of the statements);
                    # a loop that contains a read counts as a whole (its next iteration reads again); in the simple statement of the last read the
                    # right-hand side is evaluated before the targets are stored
                    load_ids = {id(n) for n in loads}
                    later = [n for n in later if not isinstance(n, (ast.expr_context, ast.operator, ast.cmpop, ast.boolop, ast.unaryop))]    # shared singletons
                    pos = {id(n): k_ for k_, n in enumerate(later)}
                    simple_of = {}
                    for n in later:
                        if isinstance(n, ast.stmt) and not isinstance(n, (ast.If, ast.For, ast.While, ast.With, ast.Try)):
                            for x_ in ast.walk(n):
                                simple_of[id(x_)] = n
                    last_load = max(loads, key=lambda n: pos[id(n)])
                    last_stmt = simple_of.get(id(last_load))
                    last_pos = max(pos[id(x_)] for x_ in ast.walk(last_stmt) if id(x_) in pos) if last_stmt is not None else pos[id(last_load)]
                    for lp_ in later:
                        if isinstance(lp_, (ast.For, ast.While)) and any(id(x_) in load_ids for x_ in ast.walk(lp_)):
                            last_pos = max(last_pos, max(pos[id(x_)] for x_ in ast.walk(lp_) if id(x_) in pos))
                            if last_stmt is not None and last_pos > max(pos[id(x_)] for x_ in ast.walk(last_stmt) if id(x_) in pos):
                                last_stmt = None
                    skip_ids = set()
                    if last_stmt is not None and isinstance(last_stmt, (ast.Assign, ast.AugAssign, ast.AnnAssign)) and \
                            last_pos == max(pos[id(x_)] for x_ in ast.walk(last_stmt) if id(x_) in pos):
                        tg_ = last_stmt.targets if isinstance(last_stmt, ast.Assign) else [last_stmt.target]
                        skip_ids = {id(x_) for t_ in tg_ for x_ in ast.walk(t_)} | {id(last_stmt)}
                        if isinstance(last_stmt, ast.AugAssign) and isinstance(last_stmt.target, ast.Name) and last_stmt.target.id in ops:
                            bad = True
                    watched = [n for n in later if pos[id(n)] <= last_pos and id(n) not in skip_ids]
                    for n in watched:
                        if isinstance(n, ast.Name) and isinstance(n.ctx, (ast.Store, ast.Del)) and n.id in ops:
                            bad = True
                        elif isinstance(n, (ast.Attribute, ast.Subscript)) and isinstance(n.ctx, (ast.Store, ast.Del)) and root(n) in ops | {name}:
                            bad = True
                        elif isinstance(n, ast.AugAssign) and isinstance(n.target, ast.Name) and n.target.id in ops | {name}:
                            bad = True
                        elif isinstance(n, ast.Call):
                            if isinstance(n.func, ast.Attribute) and n.func.attr in MUT and root(n.func.value) in ops | {name}:
                                bad = True
                            if not (isinstance(n.func, ast.Name) and n.func.id in SAFE):
                                for a_ in list(n.args) + [k.value for k in n.keywords]:
                                    if isinstance(a_, ast.Name) and a_.id in ops and a_.id not in immutable_params and not isinstance(st.value, ast.Subscript):
                                        bad = True
                        elif isinstance(n, (ast.Assign, ast.Return, ast.Yield)) and isinstance(getattr(n, 'value', None), ast.Name) and n.value.id == name:
                            bad = True          # x gets another name / leaves the function: it is an object of its own
                        elif isinstance(n, (ast.List, ast.Tuple, ast.Set, ast.Dict)) and any(
                                isinstance(x, ast.Name) and x.id == name for x in (n.elts if not isinstance(n, ast.Dict) else n.values)):
                            bad = True
                    if bad:
                        continue
                    blk[i + 1:] = [_Subst({name: st.value}).visit(b) for b in blk[i + 1:]]
                    del blk[i]
                    if not blk:
                        blk.append(ast.copy_location(ast.Pass(), st))
                    if log is not None:
                        log.append('# block local %s read as %s in %s' % (name, ast.unparse(st.value), fd.name))
                    done = True
                    break
                if done:
                    break
            if done:
                break
        if not done:
            break


def _const_str_locals(fd, log=None):
    """Flow-sensitive propagation of string constants along the top-level statements of a function: after `x = <string literal, or a
    concatenation of literals and such locals>` the reads of x are the literal, until x is stored again (anywhere, also inside a nested
    block of a later statement).  Regular expressions assembled from shared pieces read like the literals they denote."""
    a = fd.args
    params = {x.arg for x in a.posonlyargs + a.args + a.kwonlyargs} | ({a.vararg.arg} if a.vararg else set()) | ({a.kwarg.arg} if a.kwarg else set())
    if any(isinstance(n, (ast.FunctionDef, ast.AsyncFunctionDef, ast.Lambda, ast.Global, ast.Nonlocal)) for n in ast.walk(fd) if n is not fd):
        return

    def fold(e, env):
        if isinstance(e, ast.Constant) and isinstance(e.value, str):
            return e.value
        if isinstance(e, ast.Name) and e.id in env:
            return env[e.id]
        if isinstance(e, ast.BinOp) and isinstance(e.op, ast.Add):
            l_, r_ = fold(e.left, env), fold(e.right, env)
            return None if l_ is None or r_ is None else l_ + r_
        if isinstance(e, ast.JoinedStr):
            out = ''
            for v in e.values:
                if isinstance(v, ast.Constant) and isinstance(v.value, str):
                    out += v.value
                elif isinstance(v, ast.FormattedValue) and v.conversion == -1 and v.format_spec is None and fold(v.value, env) is not None:
                    out += fold(v.value, env)
                else:
                    return None
            return out
        return None

    class Fold(ast.NodeTransformer):
        def __init__(self, env):
            self.env = env

        def visit_BinOp(self, n):
            v = fold(n, self.env)
            if v is not None and not isinstance(n.left, ast.Constant) or (v is not None and not isinstance(n.right, ast.Constant)):
                return ast.copy_location(ast.Constant(value=v), n)
            if v is not None:
                return ast.copy_location(ast.Constant(value=v), n)
            return self.generic_visit(n)

        def visit_JoinedStr(self, n):
            v = fold(n, self.env)
            return ast.copy_location(ast.Constant(value=v), n) if v is not None else self.generic_visit(n)

        def visit_Name(self, n):
            if isinstance(n.ctx, ast.Load) and n.id in self.env:
                return ast.copy_location(ast.Constant(value=self.env[n.id]), n)
            return n
    env = {}
    used = set()
    new_body = []
    for st in fd.body:
        stored = {n.id for n in _walk_no_defs([st]) if isinstance(n, ast.Name) and isinstance(n.ctx, (ast.Store, ast.Del))}
        top = st.targets[0].id if isinstance(st, ast.Assign) and len(st.targets) == 1 and isinstance(st.targets[0], ast.Name) else None
        for k in list(env):
            if k in stored and not (k == top and sum(1 for n in _walk_no_defs([st]) if isinstance(n, ast.Name) and n.id == k and isinstance(n.ctx, ast.Store)) == 1):
                del env[k]
        if env and any(isinstance(n, ast.Name) and n.id in env and isinstance(n.ctx, ast.Load) for n in _walk_no_defs([st])):
            used |= {n.id for n in _walk_no_defs([st]) if isinstance(n, ast.Name) and n.id in env and isinstance(n.ctx, ast.Load)}
            st = Fold(dict(env)).visit(st)
            ast.fix_missing_locations(st)
        if top is not None and top not in params:
            v = fold(st.value, env)
            if v is not None and not isinstance(st.value, ast.Constant):
                st.value = ast.copy_location(ast.Constant(value=v), st.value)
            if v is not None and len(v) >= 3:
                env[top] = v
            else:
                env.pop(top, None)
        new_body.append(st)
    fd.body = new_body
    if used and log is not None:
        log.append('# string constants %s of %s written where they are read' % (', '.join(sorted(used)), fd.name))


def _scalarise_list_local(fd, log=None):
    """`L = [e0, e1, e2]`, L read (until it is bound again) only as `*L` in a call or as `L[k]` with a literal k: L is its elements.  Written as
    one local per element (`L_0 = e0; ...`) in the place of the binding, `f(*L)` as `f(L_0, L_1, L_2)`.  L may be bound several times in
    straight-line code (an unrolled loop): every binding is a literal list and owns the reads up to the next one."""
    if any(isinstance(n, (ast.FunctionDef, ast.AsyncFunctionDef, ast.Lambda, ast.Global, ast.Nonlocal)) for n in ast.walk(fd) if n is not fd):
        return
    all_names = {n.id for n in ast.walk(fd) if isinstance(n, ast.Name)} | {a_.arg for a_ in ast.walk(fd) if isinstance(a_, ast.arg)}
    nodes = list(_walk_no_defs(fd.body))
    order = {id(n): k for k, n in enumerate(nodes)}
    in_loop = set()
    for lp in nodes:
        if isinstance(lp, (ast.For, ast.While)):
            in_loop |= {id(x) for x in ast.walk(lp)}
    cands = {}
    for n in nodes:
        if isinstance(n, ast.Assign) and len(n.targets) == 1 and isinstance(n.targets[0], ast.Name):
            cands.setdefault(n.targets[0].id, []).append(n)
    for L, sites in cands.items():
        stores = [n for n in nodes if isinstance(n, ast.Name) and n.id == L and isinstance(n.ctx, (ast.Store, ast.Del))]
        if len(stores) != len(sites) or any(id(x) in in_loop for x in stores):
            continue
        if not all(isinstance(st.value, (ast.List, ast.Tuple)) and 1 <= len(st.value.elts) <= 8 and not any(isinstance(e_, ast.Starred) for e_ in st.value.elts)
                   for st in sites):
            continue
        loads = [n for n in nodes if isinstance(n, ast.Name) and n.id == L and isinstance(n.ctx, ast.Load)]
        if not loads:
            continue
        starred = {id(a_.value) for n in nodes if isinstance(n, ast.Call) for a_ in n.args
                   if isinstance(a_, ast.Starred) and isinstance(a_.value, ast.Name) and a_.value.id == L}
        indexed = {id(n.value): n.slice.value for n in nodes if isinstance(n, ast.Subscript) and isinstance(n.value, ast.Name) and n.value.id == L and
                   isinstance(n.ctx, ast.Load) and isinstance(n.slice, ast.Constant) and isinstance(n.slice.value, int) and not isinstance(n.slice.value, bool)}
        def _cs(b_):
            return b_ is None or (isinstance(b_, ast.Constant) and isinstance(b_.value, int) and not isinstance(b_.value, bool)) or \
                (isinstance(b_, ast.UnaryOp) and isinstance(b_.op, ast.USub) and isinstance(b_.operand, ast.Constant) and isinstance(b_.operand.value, int))

        def _cv(b_):
            return None if b_ is None else (b_.value if isinstance(b_, ast.Constant) else -b_.operand.value)
        sliced = {id(n.value): slice(_cv(n.slice.lower), _cv(n.slice.upper), _cv(n.slice.step)) for n in nodes
                  if isinstance(n, ast.Subscript) and isinstance(n.value, ast.Name) and n.value.id == L and isinstance(n.ctx, ast.Load) and
                  isinstance(n.slice, ast.Slice) and _cs(n.slice.lower) and _cs(n.slice.upper) and _cs(n.slice.step) and _cv(n.slice.step) != 0}
        sites = sorted(sites, key=lambda st: order[id(st)])
        # the binding that owns a read: the last one before it in program order (no binding sits in a loop)
        owner = {}
        ok = True
        for ld in loads:
            prev = [st for st in sites if max(order[id(x)] for x in ast.walk(st) if id(x) in order) < order[id(ld)]]
            if not prev:
                ok = False
                break
            st = prev[-1]
            if id(ld) in starred:
                owner[id(ld)] = st
            elif id(ld) in indexed and 0 <= indexed[id(ld)] < len(st.value.elts):
                owner[id(ld)] = st
            elif id(ld) in sliced:
                owner[id(ld)] = st
            else:
                ok = False
                break
        if not ok:
            continue
        names = {}
        clash = False
        for k, st in enumerate(sites):
            sfx = '' if len(sites) == 1 else '_%s' % 'abcdefgh'[k % 8]
            names[id(st)] = ['%s%s_%d' % (L, sfx, e_) for e_ in range(len(st.value.elts))]
            clash = clash or any(nm in all_names for nm in names[id(st)])
        if clash:
            continue

        class R(ast.NodeTransformer):
            def visit_Assign(self, n):
                if id(n) in names:
                    return [ast.copy_location(ast.Assign(targets=[ast.Name(id=nm, ctx=ast.Store())], value=self.visit(e_), type_comment=None), n)
                            for nm, e_ in zip(names[id(n)], n.value.elts)]
                return self.generic_visit(n)

            def visit_Call(self, n):
                self.generic_visit(n)
                if any(isinstance(a_, ast.Starred) and id(a_.value) in owner and id(a_.value) in starred for a_ in n.args):
                    args = []
                    for a_ in n.args:
                        if isinstance(a_, ast.Starred) and id(a_.value) in owner and id(a_.value) in starred:
                            args.extend(ast.Name(id=nm, ctx=ast.Load()) for nm in names[id(owner[id(a_.value)])])
                        else:
                            args.append(a_)
                    n.args = args
                return n

            def visit_Subscript(self, n):
                if isinstance(n.value, ast.Name) and id(n.value) in owner and id(n.value) in indexed:
                    return ast.copy_location(ast.Name(id=names[id(owner[id(n.value)])][indexed[id(n.value)]], ctx=ast.Load()), n)
                if isinstance(n.value, ast.Name) and id(n.value) in owner and id(n.value) in sliced:
                    return ast.copy_location(ast.List(elts=[ast.Name(id=nm, ctx=ast.Load()) for nm in names[id(owner[id(n.value)])][sliced[id(n.value)]]],
                                                      ctx=ast.Load()), n)
                return self.generic_visit(n)
        fd.body = [x for b in fd.body for x in (lambda r_: r_ if isinstance(r_, list) else [r_])(R().visit(b))]
        ast.fix_missing_locations(fd)
        if log is not None:
            log.append('# list local %s of %s written as its elements' % (L, fd.name))
        return _scalarise_list_local(fd, log)


class _ConstCond(ast.NodeTransformer):
    """Tests decided by literals alone -- left behind when a helper was inlined with a literal argument (`sep=None`): `None is None`,
    `None is not None`, `not True`, `True and x`; `if True: A else: B` is A, `a if False else b` is b."""
    @staticmethod
    def val(e):
        if isinstance(e, ast.Constant) and (e.value is None or isinstance(e.value, bool)):
            return ('k', e.value)
        return None

    @staticmethod
    def never_none(e):
        if isinstance(e, ast.Constant):
            return e.value is not None
        if isinstance(e, (ast.List, ast.Tuple, ast.Dict, ast.Set, ast.JoinedStr, ast.Compare, ast.ListComp, ast.DictComp, ast.SetComp)):
            return True
        if isinstance(e, ast.Call) and isinstance(e.func, ast.Name) and e.func.id in ('len', 'str', 'int', 'bool', 'list', 'tuple', 'dict', 'sorted', 'abs', 'min', 'max'):
            return True
        if isinstance(e, ast.BinOp) and isinstance(e.op, (ast.Add, ast.Sub, ast.Mult)):
            return True
        return False

    def visit_Compare(self, n):
        self.generic_visit(n)
        if len(n.ops) == 1 and isinstance(n.ops[0], (ast.Is, ast.IsNot)):
            a, b = self.val(n.left), self.val(n.comparators[0])
            if a is not None and b is not None:
                r = a[1] is b[1]
                return ast.copy_location(ast.Constant(value=r if isinstance(n.ops[0], ast.Is) else not r), n)
            # `<never None> is None` is False;  `(X if C else Y) is None` distributes over the branches
            if b == ('k', None):
                if self.never_none(n.left):
                    return ast.copy_location(ast.Constant(value=isinstance(n.ops[0], ast.IsNot)), n)
                if isinstance(n.left, ast.IfExp) and all(self.never_none(x) or self.val(x) == ('k', None) for x in (n.left.body, n.left.orelse)):
                    def side(x):
                        isnone = self.val(x) == ('k', None)
                        return ast.Constant(value=isnone if isinstance(n.ops[0], ast.Is) else not isnone)
                    return self.visit_IfExp(ast.copy_location(ast.IfExp(test=n.left.test, body=side(n.left.body), orelse=side(n.left.orelse)), n))
        return n

    def visit_UnaryOp(self, n):
        self.generic_visit(n)
        if isinstance(n.op, ast.Not) and isinstance(n.operand, ast.Constant) and isinstance(n.operand.value, bool):
            return ast.copy_location(ast.Constant(value=not n.operand.value), n)
        return n

    @staticmethod
    def _bool_ifexp(e):
        # in a truth-value position: `False if C else Y` is `not C and Y`, `True if C else Y` is `C or Y`
        if isinstance(e, ast.IfExp) and isinstance(e.body, ast.Constant) and isinstance(e.body.value, bool):
            c = e.test
            if e.body.value is False:
                nc = ast.UnaryOp(op=ast.Not(), operand=c)
                return ast.copy_location(ast.BoolOp(op=ast.And(), values=[nc, e.orelse]), e)
            if isinstance(c, ast.Compare) or (isinstance(c, ast.UnaryOp) and isinstance(c.op, ast.Not)):
                return ast.copy_location(ast.BoolOp(op=ast.Or(), values=[c, e.orelse]), e)
        return e

    @classmethod
    def _truth(cls, e):
        # e stands where only its truth value is used (an if / while / conditional-expression test, an operand of `not`): `not not Z` is Z,
        # and the same holds for the operands of and / or there
        e = cls._bool_ifexp(e)
        if isinstance(e, ast.UnaryOp) and isinstance(e.op, ast.Not) and isinstance(e.operand, ast.UnaryOp) and isinstance(e.operand.op, ast.Not):
            return cls._truth(e.operand.operand)
        if isinstance(e, ast.BoolOp):
            vals = []
            for v in e.values:
                v = cls._truth(v)
                if isinstance(v, ast.BoolOp) and type(v.op) is type(e.op):
                    vals.extend(v.values)
                else:
                    vals.append(v)
            e.values = vals
        return e

    def visit_BoolOp(self, n):
        n.values = [self._bool_ifexp(v) for v in n.values]
        flat = []
        for v in n.values:
            if isinstance(v, ast.BoolOp) and type(v.op) is type(n.op):
                flat.extend(v.values)
            else:
                flat.append(v)
        n.values = flat
        ast.fix_missing_locations(n)
        self.generic_visit(n)
        is_and = isinstance(n.op, ast.And)
        vals = []
        for v in n.values:
            if isinstance(v, ast.Constant) and isinstance(v.value, bool):
                if v.value is (not is_and):
                    # `x and False` / `x or True`: decided only when nothing with an effect stands before it
                    if not vals:
                        return ast.copy_location(ast.Constant(value=v.value), n)
                    vals.append(v)
                # neutral element: dropped
                continue
            vals.append(v)
        if not vals:
            return ast.copy_location(ast.Constant(value=is_and), n)
        if len(vals) == 1:
            return vals[0]
        n.values = vals
        return n

    def visit_IfExp(self, n):
        self.generic_visit(n)
        if isinstance(n.test, ast.Constant) and isinstance(n.test.value, bool):
            return n.body if n.test.value else n.orelse
        # `True if C else False` is C (for a test that is a comparison / not / and / or: already a bool);  `False if C else True` is not C
        if isinstance(n.body, ast.Constant) and isinstance(n.orelse, ast.Constant) and isinstance(n.body.value, bool) and isinstance(n.orelse.value, bool) and \
                isinstance(n.test, (ast.Compare, ast.UnaryOp)) and (not isinstance(n.test, ast.UnaryOp) or isinstance(n.test.op, ast.Not)):
            if n.body.value and not n.orelse.value:
                return n.test
            if not n.body.value and n.orelse.value:
                return ast.copy_location(ast.UnaryOp(op=ast.Not(), operand=n.test), n)
        return n

    def visit_While(self, n):
        n.test = self._truth(n.test)
        ast.fix_missing_locations(n)
        return self.generic_visit(n)

    def visit_If(self, n):
        n.test = self._truth(n.test)
        ast.fix_missing_locations(n)
        self.generic_visit(n)
        if isinstance(n.test, ast.Constant) and isinstance(n.test.value, bool):
            taken = n.body if n.test.value else n.orelse
            return taken or ast.copy_location(ast.Pass(), n)
        # inside a branch of `if C:` a conditional expression on the same C is decided (C reads only names the branch does not bind)
        t_ = ast.unparse(n.test)
        tnames = {x.id for x in ast.walk(n.test) if isinstance(x, ast.Name)}
        if not any(isinstance(x, (ast.Call, ast.Attribute, ast.Subscript)) for x in ast.walk(n.test)):
            for branch, outcome in ((n.body, True), (n.orelse, False)):
                if not branch or tnames & set(_stores(branch)):
                    continue

                class D(ast.NodeTransformer):
                    def visit_IfExp(self_, e):
                        self_.generic_visit(e)
                        if ast.unparse(e.test) == t_:
                            return e.body if outcome else e.orelse
                        return e
                branch[:] = [D().visit(b) for b in branch]
        return n


def _sort_then_use(fd, log=None):
    """`L = <expr>` immediately followed by `L.sort(...)`: L is `sorted(<expr>, ...)` from the start (nothing reads it in between);
    `x = T.pop(k)` immediately followed by `U[key] = x` with x used nowhere else: `U[key] = T.pop(k)` (the right-hand side is evaluated first)."""
    def rewrite(stmts):
        i = 0
        while i + 1 < len(stmts):
            st, nxt = stmts[i], stmts[i + 1]
            if isinstance(st, ast.Assign) and len(st.targets) == 1 and isinstance(st.targets[0], ast.Name) and isinstance(nxt, ast.Expr) and \
                    isinstance(nxt.value, ast.Call) and isinstance(nxt.value.func, ast.Attribute) and nxt.value.func.attr == 'sort' and \
                    isinstance(nxt.value.func.value, ast.Name) and nxt.value.func.value.id == st.targets[0].id and not nxt.value.args and \
                    isinstance(st.value, (ast.ListComp, ast.List, ast.Call)) and \
                    (not isinstance(st.value, ast.Call) or (isinstance(st.value.func, ast.Name) and st.value.func.id in ('list', 'sorted'))):
                after = stmts[i + 2] if i + 2 < len(stmts) else None
                n_occ = sum(1 for n in _walk_no_defs(fd.body) if isinstance(n, ast.Name) and n.id == st.targets[0].id)
                if isinstance(after, ast.For) and isinstance(after.iter, ast.Name) and after.iter.id == st.targets[0].id and n_occ == 3:
                    # ... and only looped over afterwards: the loop walks sorted(L)
                    after.iter = ast.copy_location(ast.Call(func=ast.Name(id='sorted', ctx=ast.Load()), args=[after.iter], keywords=nxt.value.keywords), after.iter)
                    ast.fix_missing_locations(after)
                else:
                    st.value = ast.copy_location(ast.Call(func=ast.Name(id='sorted', ctx=ast.Load()), args=[st.value], keywords=nxt.value.keywords), st.value)
                    ast.fix_missing_locations(st)
                del stmts[i + 1]
                if log is not None:
                    log.append('# %s sorted in place right after its creation in %s: created sorted' % (st.targets[0].id, fd.name))
                continue
            if isinstance(st, ast.Assign) and len(st.targets) == 1 and isinstance(st.targets[0], ast.Name) and isinstance(st.value, ast.Call) and \
                    isinstance(st.value.func, ast.Attribute) and st.value.func.attr == 'pop' and isinstance(nxt, ast.Assign) and len(nxt.targets) == 1 and \
                    isinstance(nxt.targets[0], ast.Subscript) and isinstance(nxt.value, ast.Name) and nxt.value.id == st.targets[0].id and \
                    sum(1 for n in _walk_no_defs(fd.body) if isinstance(n, ast.Name) and n.id == st.targets[0].id) == 2:
                nxt.value = st.value
                del stmts[i]
                continue
            # `x = D.pop(k, None)` + `if x is not None: U[new] = x` (x used nowhere else) is `if k in D: U[new] = D.pop(k)` -- the stored values are objects
            if isinstance(st, ast.Assign) and len(st.targets) == 1 and isinstance(st.targets[0], ast.Name) and isinstance(st.value, ast.Call) and \
                    isinstance(st.value.func, ast.Attribute) and st.value.func.attr == 'pop' and len(st.value.args) == 2 and \
                    isinstance(st.value.args[1], ast.Constant) and st.value.args[1].value is None and isinstance(nxt, ast.If) and not nxt.orelse and \
                    isinstance(nxt.test, ast.Compare) and len(nxt.test.ops) == 1 and isinstance(nxt.test.ops[0], ast.IsNot) and \
                    isinstance(nxt.test.left, ast.Name) and nxt.test.left.id == st.targets[0].id and \
                    isinstance(nxt.test.comparators[0], ast.Constant) and nxt.test.comparators[0].value is None and len(nxt.body) == 1 and \
                    isinstance(nxt.body[0], ast.Assign) and isinstance(nxt.body[0].targets[0], ast.Subscript) and isinstance(nxt.body[0].value, ast.Name) and \
                    nxt.body[0].value.id == st.targets[0].id and \
                    sum(1 for n in _walk_no_defs(fd.body) if isinstance(n, ast.Name) and n.id == st.targets[0].id) == 3:
                D, K = st.value.func.value, st.value.args[0]
                nxt.test = ast.copy_location(ast.Compare(left=astcopy(K), ops=[ast.In()], comparators=[astcopy(D)]), nxt.test)
                nxt.body[0].value = ast.copy_location(ast.Call(func=ast.Attribute(value=D, attr='pop', ctx=ast.Load()), args=[K], keywords=[]), st.value)
                ast.fix_missing_locations(nxt)
                del stmts[i]
                continue
            for fld in ('body', 'orelse', 'finalbody'):
                L = getattr(st, fld, None)
                if isinstance(L, list) and L and isinstance(L[0], ast.stmt) and not isinstance(st, (ast.FunctionDef, ast.ClassDef)):
                    rewrite(L)
            i += 1
        if stmts:
            st = stmts[-1]
            for fld in ('body', 'orelse', 'finalbody'):
                L = getattr(st, fld, None)
                if isinstance(L, list) and L and isinstance(L[0], ast.stmt) and not isinstance(st, (ast.FunctionDef, ast.ClassDef)):
                    rewrite(L)
    rewrite(fd.body)


def _next_over_table(fd, log=None):
    """`T = ((k0, a0, b0), (k1, a1, b1), ...)` (a literal, bound once, read once) and `X = next((E(row) for row in T if C(row)), D)`: a first-match
    lookup in a literal table.  Written as the if / elif chain over the rows with the default in the final else; `row[i]` / `row[i:]` of a literal row
    are the elements themselves."""
    sto = _stores(fd.body)

    class Sub(ast.NodeTransformer):
        def __init__(self, var, row):
            self.var, self.row = var, row

        def visit_Subscript(self, n):
            self.generic_visit(n)
            if isinstance(n.value, ast.Name) and n.value.id == self.var:
                sl = n.slice
                if isinstance(sl, ast.Constant) and isinstance(sl.value, int) and -len(self.row.elts) <= sl.value < len(self.row.elts):
                    return astcopy(self.row.elts[sl.value])
                if isinstance(sl, ast.Slice) and sl.step is None and all(b is None or (isinstance(b, ast.Constant) and isinstance(b.value, int)) for b in (sl.lower, sl.upper)):
                    lo = sl.lower.value if sl.lower is not None else None
                    hi = sl.upper.value if sl.upper is not None else None
                    return ast.copy_location(ast.Tuple(elts=[astcopy(e) for e in self.row.elts[lo:hi]], ctx=ast.Load()), n)
            return n

    def rewrite(stmts):
        for i, st in enumerate(list(stmts)):
            for fld in ('body', 'orelse', 'finalbody'):
                L = getattr(st, fld, None)
                if isinstance(L, list) and L and isinstance(L[0], ast.stmt) and not isinstance(st, (ast.FunctionDef, ast.ClassDef)):
                    rewrite(L)
            if not (isinstance(st, ast.Assign) and len(st.targets) == 1 and isinstance(st.value, ast.Call) and isinstance(st.value.func, ast.Name) and
                    st.value.func.id == 'next' and len(st.value.args) == 2 and not st.value.keywords and isinstance(st.value.args[0], ast.GeneratorExp)):
                continue
            ge, dflt = st.value.args
            if len(ge.generators) != 1 or ge.generators[0].is_async or not isinstance(ge.generators[0].target, ast.Name) or not isinstance(ge.generators[0].iter, ast.Name):
                continue
            g0 = ge.generators[0]
            tn, var = g0.iter.id, g0.target.id
            if sto.get(tn) != 1:
                continue
            j = next((k for k in range(i - 1, -1, -1) if isinstance(stmts[k], ast.Assign) and len(stmts[k].targets) == 1 and
                      isinstance(stmts[k].targets[0], ast.Name) and stmts[k].targets[0].id == tn), None)
            if j is None:
                continue
            tab = stmts[j].value
            if not (isinstance(tab, (ast.Tuple, ast.List)) and tab.elts and all(isinstance(r, (ast.Tuple, ast.List)) for r in tab.elts)):
                continue
            if sum(1 for n in _walk_no_defs(fd.body) if isinstance(n, ast.Name) and n.id == tn) != 2:
                continue
            # the rows' expressions are evaluated when the table is built: only names, attributes and constants may be moved into the chain
            if not all(isinstance(x, (ast.Name, ast.Attribute, ast.Constant, ast.Tuple, ast.List, ast.Load)) for r in tab.elts for x in ast.walk(r)):
                continue
            # nothing between the table and the lookup rebinds what the rows mention
            mention = {x.id for r in tab.elts for x in ast.walk(r) if isinstance(x, ast.Name)}
            if any(isinstance(x, ast.Name) and isinstance(x.ctx, ast.Store) and x.id in mention for s_ in stmts[j + 1:i] for x in ast.walk(s_)):
                continue
            chain = None
            ok = True
            for r in reversed(tab.elts):
                cond = ast.BoolOp(op=ast.And(), values=[Sub(var, r).visit(astcopy(c)) for c in g0.ifs]) if len(g0.ifs) > 1 else \
                    (Sub(var, r).visit(astcopy(g0.ifs[0])) if g0.ifs else ast.Constant(value=True))
                val = Sub(var, r).visit(astcopy(ge.elt))
                if any(isinstance(x, ast.Name) and x.id == var for e_ in (cond, val) for x in ast.walk(e_)):
                    ok = False
                    break
                asg = ast.Assign(targets=[astcopy(t) for t in st.targets], value=val)
                els = [chain] if chain is not None else [ast.Assign(targets=[astcopy(t) for t in st.targets], value=dflt)]
                chain = ast.If(test=cond, body=[asg], orelse=els)
            if not ok:
                continue
            ast.copy_location(chain, st)
            ast.fix_missing_locations(chain)
            for n in ast.walk(chain):
                if not hasattr(n, 'lineno') and isinstance(n, (ast.stmt, ast.expr)):
                    ast.copy_location(n, st)
            stmts[i] = chain
            del stmts[j]
            if log is not None:
                log.append('# first-match lookup in the literal table %s written as an if / elif chain in %s' % (tn, fd.name))
            return rewrite(stmts)
    rewrite(fd.body)


def _return_accumulator(fd, log=None):
    """`acc = ''` ... `acc += e` ... `return acc + tail` (acc a string accumulator: bound to a string literal, otherwise only `+=`-ed):
    the last piece is appended like the others, `acc += tail; return acc`."""
    if not fd.body or not isinstance(fd.body[-1], ast.Return):
        return
    ret = fd.body[-1]
    v = ret.value
    parts = []
    while isinstance(v, ast.BinOp) and isinstance(v.op, ast.Add):
        parts.append(v.right)
        v = v.left
    if not parts or not isinstance(v, ast.Name):
        return
    acc = v.id
    stores = [n for n in _walk_no_defs(fd.body) if isinstance(n, ast.Name) and n.id == acc and isinstance(n.ctx, (ast.Store, ast.Del))]
    inits = [n for n in _walk_no_defs(fd.body) if isinstance(n, ast.Assign) and len(n.targets) == 1 and isinstance(n.targets[0], ast.Name) and n.targets[0].id == acc]
    augs = [n for n in _walk_no_defs(fd.body) if isinstance(n, ast.AugAssign) and isinstance(n.target, ast.Name) and n.target.id == acc and isinstance(n.op, ast.Add)]
    if not inits or not augs or len(stores) != len(inits) + len(augs):
        return
    if not all(isinstance(n.value, ast.Constant) and isinstance(n.value.value, str) for n in inits):
        return
    if any(isinstance(x, ast.Name) and x.id == acc for p_ in parts for x in ast.walk(p_)):
        return
    tail = parts[-1]
    for p_ in reversed(parts[:-1]):
        tail = ast.BinOp(left=tail, op=ast.Add(), right=p_)
    aug = ast.copy_location(ast.AugAssign(target=ast.Name(id=acc, ctx=ast.Store()), op=ast.Add(), value=tail), ret)
    ret.value = ast.copy_location(ast.Name(id=acc, ctx=ast.Load()), ret.value)
    fd.body.insert(len(fd.body) - 1, aug)
    ast.fix_missing_locations(aug)
    if log is not None:
        log.append('# the last piece of the accumulator %s of %s is appended before the return' % (acc, fd.name))


def _block_temp_rename(fd, log=None):
    """`x = y` in a block, y a local all of whose occurrences are in the statements of that block before the copy, x not occurring in them:
    the statements computed x under another name (`length = 0; for ..: length += 1; start = length`).  y is written as x, the copy dropped."""
    if any(isinstance(n, (ast.FunctionDef, ast.AsyncFunctionDef, ast.Lambda, ast.Global, ast.Nonlocal)) for n in ast.walk(fd) if n is not fd):
        return
    params = {a_.arg for a_ in ast.walk(fd.args) if isinstance(a_, ast.arg)}
    total = {}
    for n in _walk_no_defs(fd.body):
        if isinstance(n, ast.Name):
            total[n.id] = total.get(n.id, 0) + 1

    def escapes(nodes, in_loop=False):
        # a jump that leaves these statements before their end: x would keep its old value on that path
        for n in nodes:
            if isinstance(n, (ast.Return, ast.Raise)):
                return True
            if isinstance(n, (ast.Break, ast.Continue)) and not in_loop:
                return True
            if isinstance(n, (ast.FunctionDef, ast.AsyncFunctionDef, ast.ClassDef, ast.Lambda)):
                continue
            inner = in_loop or isinstance(n, (ast.For, ast.While))
            if isinstance(n, (ast.For, ast.While)):
                if escapes(n.body, True) or escapes(n.orelse, in_loop):
                    return True
                continue
            if escapes([c for c in ast.iter_child_nodes(n) if isinstance(c, (ast.stmt, ast.ExceptHandler))], inner):
                return True
        return False

    def rewrite(stmts):
        for k, st in enumerate(stmts):
            for fld in ('body', 'orelse', 'finalbody'):
                L = getattr(st, fld, None)
                if isinstance(L, list) and L and isinstance(L[0], ast.stmt) and not isinstance(st, (ast.FunctionDef, ast.ClassDef)):
                    if rewrite(L):
                        return True
            if isinstance(st, ast.Assign) and len(st.targets) == 1 and isinstance(st.targets[0], ast.Name) and isinstance(st.value, ast.Name) and \
                    st.value.id != st.targets[0].id and st.value.id not in params and k > 0 and not escapes(stmts[:k]):
                x, y = st.targets[0].id, st.value.id
                before = [n for b in stmts[:k] for n in _walk_no_defs([b]) if isinstance(n, ast.Name)]
                ny = sum(1 for n in before if n.id == y)
                if ny and ny + 1 == total.get(y, 0) and not any(n.id == x for n in before) and \
                        any(n.id == y and isinstance(n.ctx, ast.Store) for n in before):
                    for j in range(k):
                        stmts[j] = _Rename({y: x}).visit(stmts[j])
                    del stmts[k]
                    if log is not None:
                        log.append('# %s, computed as %s and copied, written as %s from the start in %s' % (x, y, x, fd.name))
                    return True
        return False
    for _ in range(6):
        if not rewrite(fd.body):
            break
        total.clear()
        for n in _walk_no_defs(fd.body):
            if isinstance(n, ast.Name):
                total[n.id] = total.get(n.id, 0) + 1


def _append_temp(fd, log=None):
    """`x = E` immediately followed by `L.append(x)` (L a plain name), x occurring nowhere else in the function but in such pairs: `L.append(E)`."""
    pairs = []

    def scan(stmts):
        for i, st in enumerate(stmts):
            for fld in ('body', 'orelse', 'finalbody'):
                L = getattr(st, fld, None)
                if isinstance(L, list) and L and isinstance(L[0], ast.stmt) and not isinstance(st, (ast.FunctionDef, ast.ClassDef)):
                    scan(L)
            if isinstance(st, ast.Try):
                for h in st.handlers:
                    scan(h.body)
            nxt = stmts[i + 1] if i + 1 < len(stmts) else None
            if isinstance(st, ast.Assign) and len(st.targets) == 1 and isinstance(st.targets[0], ast.Name) and isinstance(nxt, ast.Expr) and \
                    isinstance(nxt.value, ast.Call) and isinstance(nxt.value.func, ast.Attribute) and nxt.value.func.attr == 'append' and \
                    isinstance(nxt.value.func.value, ast.Name) and len(nxt.value.args) == 1 and not nxt.value.keywords and \
                    isinstance(nxt.value.args[0], ast.Name) and nxt.value.args[0].id == st.targets[0].id and nxt.value.func.value.id != st.targets[0].id and \
                    not any(isinstance(x, ast.Name) and x.id == st.targets[0].id for x in ast.walk(st.value)):
                pairs.append((stmts, st, nxt))
    scan(fd.body)
    by_name = {}
    for stmts, st, nxt in pairs:
        by_name.setdefault(st.targets[0].id, []).append((stmts, st, nxt))
    for x, ps in by_name.items():
        if sum(1 for n in ast.walk(fd) if isinstance(n, ast.Name) and n.id == x) != 2 * len(ps):
            continue
        for stmts, st, nxt in ps:
            nxt.value.args[0] = st.value
            stmts.remove(st)
        if log is not None:
            log.append('# %s, bound only to be appended, written into the append in %s' % (x, fd.name))


def _param_copy(fd, log=None):
    """`x = p` at the top level with p a parameter that is not read or bound anywhere after that statement, x not occurring before it: x is
    the parameter under another name (`remaining = count` so that the argument is "not mutated").  x is written as p."""
    a = fd.args
    params = {x.arg for x in a.posonlyargs + a.args + a.kwonlyargs}
    if any(isinstance(n, (ast.FunctionDef, ast.AsyncFunctionDef, ast.Lambda, ast.Global, ast.Nonlocal)) for n in ast.walk(fd) if n is not fd):
        return
    for i, st in enumerate(list(fd.body)):
        if not (isinstance(st, ast.Assign) and len(st.targets) == 1 and isinstance(st.targets[0], ast.Name) and isinstance(st.value, ast.Name) and
                st.targets[0].id not in params):
            continue
        if st.value.id not in params and st.value.id not in _stores(fd.body[:i]):
            continue        # neither a parameter nor a local bound before: a global
        x, p_ = st.targets[0].id, st.value.id
        before = [n for b in fd.body[:i] for n in _walk_no_defs([b]) if isinstance(n, ast.Name) and n.id == x]
        after_p = [n for b in fd.body[i + 1:] for n in _walk_no_defs([b]) if isinstance(n, ast.Name) and n.id == p_]
        if before:
            continue
        if after_p:
            # p is still used afterwards: x and p name the same object for the rest of the function when neither is bound again
            later = _stores(fd.body[i + 1:])
            if x in later or p_ in later:
                continue
        fd.body = [_Rename({x: p_}).visit(b) for b in fd.body if b is not st]
        if log is not None:
            log.append('# %s, a copy of the parameter / local %s that is not used again, written as %s in %s' % (x, p_, p_, fd.name))
        return _param_copy(fd, log)


def _thread_flag(fd, log=None):
    """`flag = <literal bool>` ... an if / elif chain some of whose branches end up assigning `flag = <expr>` ... immediately followed by
    `if flag: X else: Y` (or `if not flag`), flag used nowhere else: the decision is made where the flag is set.  Every branch of the chain that can
    fall through gets its own copy of the decision with the flag written as what that branch bound it to (the literal when it did not), so a
    flag-driven epilogue reads like the branch-local code it stands for."""
    if any(isinstance(n, (ast.FunctionDef, ast.AsyncFunctionDef, ast.Lambda, ast.Global, ast.Nonlocal)) for n in ast.walk(fd) if n is not fd):
        return

    def leaves(chain):
        """the statement lists at the ends of an if / elif / else chain (an absent else is a leaf of its own: None)"""
        out = [chain.body]
        if not chain.orelse:
            out.append(None)
        elif len(chain.orelse) == 1 and isinstance(chain.orelse[0], ast.If):
            out += leaves(chain.orelse[0])
        else:
            out.append(chain.orelse)
        return out

    body = fd.body
    for j in range(1, len(body)):
        dec = body[j]
        chain = body[j - 1]
        if not (isinstance(dec, ast.If) and isinstance(chain, ast.If)):
            continue
        t = dec.test
        neg = isinstance(t, ast.UnaryOp) and isinstance(t.op, ast.Not)
        tn = t.operand if neg else t
        if not isinstance(tn, ast.Name):
            continue
        flag = tn.id
        init = next((k for k in range(j - 1) if isinstance(body[k], ast.Assign) and len(body[k].targets) == 1 and isinstance(body[k].targets[0], ast.Name) and
                     body[k].targets[0].id == flag and isinstance(body[k].value, ast.Constant) and isinstance(body[k].value.value, bool)), None)
        if init is None:
            continue
        occ = [n for n in _walk_no_defs(fd.body) if isinstance(n, ast.Name) and n.id == flag]
        lv = leaves(chain)
        if None in lv:
            continue        # a chain without else: the fall-through case would need a new branch; not this form
        sets = {}
        ok = True
        n_stores = 1
        for L in lv:
            here = [x for x in L if isinstance(x, ast.Assign) and len(x.targets) == 1 and isinstance(x.targets[0], ast.Name) and x.targets[0].id == flag]
            deep = [n for x in L for n in _walk_no_defs([x]) if isinstance(n, ast.Name) and n.id == flag]
            if len(deep) != len(here) or len(here) > 1:
                ok = False
                break
            n_stores += len(here)
            if here:
                # the value must still mean the same at the end of the branch
                after = L[L.index(here[0]) + 1:]
                names = {n.id for n in ast.walk(here[0].value) if isinstance(n, ast.Name)}
                if names & set(_stores(after)) or any(isinstance(n, ast.Call) for n in ast.walk(here[0].value)):
                    ok = False
                    break
                sets[id(L)] = here[0]
        if not ok or len(occ) != n_stores + 1:
            continue
        if any(isinstance(x, ast.Name) and x.id == flag for k in range(init + 1, j - 1) for x in _walk_no_defs([body[k]])):
            continue
        for L in lv:
            if L and isinstance(L[-1], (ast.Return, ast.Raise, ast.Continue, ast.Break)):
                if id(L) in sets:
                    L.remove(sets[id(L)])
                continue
            val = sets[id(L)].value if id(L) in sets else body[init].value
            if id(L) in sets:
                L.remove(sets[id(L)])
            test = ast.UnaryOp(op=ast.Not(), operand=astcopy(val)) if neg else astcopy(val)
            d2 = ast.copy_location(ast.If(test=test, body=[astcopy(x) for x in dec.body], orelse=[astcopy(x) for x in dec.orelse]), dec)
            ast.fix_missing_locations(d2)
            L.append(_ConstCond().visit(d2))
            flat = []
            for x in L:
                flat.extend(x if isinstance(x, list) else [x])
            L[:] = [x for x in flat if not isinstance(x, ast.Pass)] or [ast.copy_location(ast.Pass(), dec)]
        del body[j]
        del body[init]
        if log is not None:
            log.append('# flag %s of %s decided where it is set' % (flag, fd.name))
        return _thread_flag(fd, log)


def _genexp_loop(fd, log=None):
    """`G = (E for a in X for b in Y if C)` ... `for T in G: BODY` in one statement list, G used nowhere else, nothing in between that calls anything or
    binds a name the comprehension reads, BODY without `break`: the nested loops themselves -- `for a in X: for b in Y: if C: T = E; BODY`."""
    def rewrite(stmts):
        i = 0
        while i < len(stmts):
            st = stmts[i]
            for fld in ('body', 'orelse', 'finalbody'):
                L = getattr(st, fld, None)
                if isinstance(L, list) and L and isinstance(L[0], ast.stmt) and not isinstance(st, (ast.FunctionDef, ast.ClassDef)):
                    rewrite(L)
            if isinstance(st, ast.Assign) and len(st.targets) == 1 and isinstance(st.targets[0], ast.Name) and isinstance(st.value, (ast.GeneratorExp, ast.ListComp)) and \
                    len(st.value.generators) >= 2 and not any(g.is_async for g in st.value.generators):
                G = st.targets[0].id
                occ = [n for n in _walk_no_defs(fd.body) if isinstance(n, ast.Name) and n.id == G]
                j = next((k for k in range(i + 1, len(stmts)) if isinstance(stmts[k], ast.For) and isinstance(stmts[k].iter, ast.Name) and stmts[k].iter.id == G), None)
                if j is not None and len(occ) == 2 and not stmts[j].orelse:
                    loop = stmts[j]
                    between = stmts[i + 1:j]
                    reads = {n.id for n in ast.walk(st.value) if isinstance(n, ast.Name) and isinstance(n.ctx, ast.Load)}
                    binds = {n.id for g in st.value.generators for n in ast.walk(g.target) if isinstance(n, ast.Name)}
                    calm = all(isinstance(b, ast.Assign) and not any(isinstance(x, (ast.Call, ast.Await, ast.Yield)) for x in ast.walk(b)) for b in between) and \
                        not (set(_stores(between)) & (reads | binds))
                    own_inner = {id(y) for b in loop.body for lp_ in _walk_no_defs([b]) if isinstance(lp_, (ast.For, ast.While)) for y in ast.walk(lp_)}
                    breaks = [n for b in loop.body for n in _walk_no_defs([b]) if isinstance(n, ast.Break) and id(n) not in own_inner]
                    clash = binds & (set(_stores(loop.body)) | {n.id for n in ast.walk(loop.target) if isinstance(n, ast.Name)}) - \
                        {n.id for n in ast.walk(st.value.elt) if isinstance(n, ast.Name)}
                    if calm and not breaks and not clash:
                        inner = [ast.copy_location(ast.Assign(targets=[loop.target], value=st.value.elt, type_comment=None), loop)] + loop.body
                        for g in reversed(st.value.generators):
                            for c in reversed(g.ifs):
                                inner = [ast.copy_location(ast.If(test=c, body=inner, orelse=[]), loop)]
                            inner = [ast.copy_location(ast.For(target=g.target, iter=g.iter, body=inner, orelse=[], type_comment=None), loop)]
                        for x in inner:
                            ast.fix_missing_locations(x)
                        stmts[j:j + 1] = inner
                        del stmts[i]
                        if log is not None:
                            log.append('# generator %s of %s written as the loops it stands for' % (G, fd.name))
                        continue
            i += 1
    rewrite(fd.body)


def _stores(stmts):
    out = {}
    for n in _walk_no_defs(stmts):
        if isinstance(n, ast.Name) and isinstance(n.ctx, (ast.Store, ast.Del)):
            out[n.id] = out.get(n.id, 0) + 1
    return out


class _Subst(ast.NodeTransformer):
    def __init__(self, env):
        self.env = env

    def visit_Name(self, n):
        if isinstance(n.ctx, ast.Load) and n.id in self.env:
            return astcopy(self.env[n.id])
        return n

    def visit_Lambda(self, n):
        return n

    def visit_FunctionDef(self, n):
        return n


def _subst(node, env):
    return _Subst(env).visit(astcopy(node))


class _Rename(ast.NodeTransformer):
    def __init__(self, mapping):
        self.mapping = mapping

    def visit_Name(self, n):
        if n.id in self.mapping:
            return ast.copy_location(ast.Name(id=self.mapping[n.id], ctx=n.ctx), n)
        return n


def _expr_helper(h):
    """(env of locals, return expr) if the helper is: single-assignment simple locals, then one `return expr`."""
    body = h.body
    if not body or not isinstance(body[-1], ast.Return) or body[-1].value is None:
        return None
    env = {}
    guards = []
    for st in body[:-1]:
        if isinstance(st, ast.Assign) and len(st.targets) == 1 and isinstance(st.targets[0], ast.Name) and st.targets[0].id not in env \
                and st.targets[0].id not in h.params and not guards:
            env[st.targets[0].id] = _subst(st.value, env)
        elif isinstance(st, ast.AnnAssign) and isinstance(st.target, ast.Name) and st.value is not None and st.target.id not in env and not guards:
            env[st.target.id] = _subst(st.value, env)
        elif isinstance(st, ast.If) and not st.orelse and len(st.body) == 1 and isinstance(st.body[0], ast.Return) and st.body[0].value is not None and \
                isinstance(st.body[0].value, ast.Constant) and isinstance(st.body[0].value.value, bool) and env is not None and \
                all(_pure_read(v_) for v_ in env.values()):
            # `if C: return <True / False>` before the final return (the locals so far are plain reads: evaluating them again changes nothing)
            guards.append((st.test, st.body[0].value))
        else:
            return None
    for n in [x for g_ in guards for x in ast.walk(g_[0])] + list(ast.walk(body[-1].value)):
        if isinstance(n, (ast.Yield, ast.YieldFrom, ast.Await, ast.NamedExpr)):
            return None
    expr = body[-1].value
    for test, val in reversed(guards):
        expr = ast.copy_location(ast.IfExp(test=test, body=val, orelse=expr), test)
    return env, expr


def _pure_read(e):
    return all(isinstance(n, (ast.Name, ast.Attribute, ast.Subscript, ast.Slice, ast.Constant, ast.Load, ast.BinOp, ast.Add, ast.Sub, ast.UnaryOp, ast.USub, ast.Tuple)) or
               (isinstance(n, ast.Call) and isinstance(n.func, ast.Name) and n.func.id == 'len' and len(n.args) == 1 and not n.keywords)
               for n in ast.walk(e))


def _contains_return(st):
    return any(isinstance(n, ast.Return) for n in _walk_no_defs([st]))


def _convert_returns(stmts, mk):
    """Rewrite a statement list so that every `return v` becomes mk(v) and nothing after it runs: early returns become if/else.
    Returns the new list or None when a return sits inside a loop / try / with."""
    for i, st in enumerate(stmts):
        if not _contains_return(st):
            continue
        rest = stmts[i + 1:]
        if isinstance(st, ast.Return):
            return stmts[:i] + mk(st.value)
        if isinstance(st, ast.If):
            b = _convert_returns(st.body + astcopy(rest), mk)
            o = _convert_returns(st.orelse + astcopy(rest), mk)
            if b is None or o is None:
                return None
            new = ast.copy_location(ast.If(test=st.test, body=b or [ast.copy_location(ast.Pass(), st)], orelse=o), st)
            return stmts[:i] + [new]
        return None
    return list(stmts)


class Inliner:
    def __init__(self, trees):
        """trees: {module name: ast.Module} (already in normal form); mutated in place."""
        self.trees = trees
        self.log = []
        self.helpers = {}
        self.unresolved_scopes = set()

    # ------------------------------------------------------------------------------------------------ index
    def _index(self):
        self.helpers = {}
        self.class_methods = {}      # class -> {method name: _Helper} (all methods, for the unbound-call normal form)
        for mname, tree in self.trees.items():
            for st in tree.body:
                if isinstance(st, ast.ClassDef):
                    for x in st.body:
                        if isinstance(x, ast.FunctionDef):
                            h = _Helper(st.name, x, mname)
                            self.class_methods.setdefault(st.name, {})[x.name] = h
                            if _is_private(x.name):
                                self.helpers[(st.name, x.name)] = h
                elif isinstance(st, ast.FunctionDef) and _is_private(st.name):
                    self.helpers[(None, st.name)] = _Helper(None, st, mname)

    # ------------------------------------------------------------------------------------------------ 1. renames
    def renames(self):
        self._index()
        present = set(self.helpers)
        by_scope = {}
        # a private class of the pinned tree may itself have been renamed: find the class that now carries its helpers (by parameter lists)
        scope_alias = {}
        for scope in {k[0] for k in KNOWN_PRIVATE if k[0] is not None and k[0] not in self.class_methods}:
            wanted = [KNOWN_PARAMS[k] for k in KNOWN_PRIVATE if k[0] == scope]
            scores = {}
            for cname, meths in self.class_methods.items():
                if cname in PINNED_CLASSES:
                    continue
                scores[cname] = sum(1 for h in meths.values() if tuple(h.params) in wanted and _is_private(h.name))
            best = sorted(scores.items(), key=lambda kv: -kv[1])
            if best and best[0][1] >= 1 and (len(best) == 1 or best[1][1] < best[0][1]):
                scope_alias[best[0][0]] = scope
        for k in KNOWN_PRIVATE:
            cur_scope = next((c for c, o in scope_alias.items() if o == k[0]), k[0])
            if (cur_scope, k[1]) not in present:
                by_scope.setdefault(cur_scope, {'missing': [], 'new': []})['missing'].append(k)
        known_now = {(next((c for c, o in scope_alias.items() if o == k[0]), k[0]), k[1]) for k in KNOWN_PRIVATE}
        for k in present - known_now:
            by_scope.setdefault(k[0], {'missing': [], 'new': []})['new'].append(k)
        self.known_now = known_now
        mapping = {}
        self.unresolved_scopes = set()
        for scope, d in by_scope.items():
            if not d['missing']:
                continue
            left = list(d['missing'])
            news = list(d['new'])
            # same parameter list first, then same number of parameters when that is unambiguous
            for old in list(left):
                cand = [k for k in news if tuple(self.helpers[k].params) == KNOWN_PARAMS[old]]
                if len(cand) == 1:
                    mapping[cand[0]] = old
                    news.remove(cand[0])
                    left.remove(old)
            for old in list(left):
                cand = [k for k in news if len(self.helpers[k].params) == len(KNOWN_PARAMS[old])]
                same = [o for o in left if len(KNOWN_PARAMS[o]) == len(KNOWN_PARAMS[old])]
                if len(cand) == 1 and len(same) == 1:
                    mapping[cand[0]] = old
                    news.remove(cand[0])
                    left.remove(old)
            if left:
                # a helper of the pinned tree is gone and no new one stands for it: nothing in this scope is inlined (the rules will
                # report the vanished anchor rather than judge a reshaped caller)
                self.unresolved_scopes.add(scope)
        if not mapping:
            return
        names = {new[1]: old[1] for new, old in mapping.items()}

        class R(ast.NodeTransformer):
            def visit_Attribute(self, n):
                self.generic_visit(n)
                if n.attr in names:
                    n.attr = names[n.attr]
                return n

            def visit_Name(self, n):
                if n.id in names:
                    n.id = names[n.id]
                return n

            def visit_FunctionDef(self, n):
                self.generic_visit(n)
                if n.name in names:
                    n.name = names[n.name]
                return n
        for tree in self.trees.values():
            R().visit(tree)
        for new, old in mapping.items():
            self.log.append('renamed helper %s.%s treated as %s' % (new[0] or '<module>', new[1], old[1]))

    # ------------------------------------------------------------------------------------------------ call resolution
    def _resolve(self, call, cls, self_name):
        """-> (_Helper, receiver expr or None) for a call of a new private helper, else None."""
        f = call.func
        if isinstance(f, ast.Name):
            h = self.helpers.get((None, f.id))
            if h and (None, f.id) not in getattr(self, 'known_now', KNOWN_PRIVATE) and None not in getattr(self, 'unresolved_scopes', ()):
                return h, None
            return None
        if isinstance(f, ast.Attribute) and _is_private(f.attr):
            base = f.value
            bt = ast.unparse(base)
            hcls = None
            via_instance = False
            if self_name and bt == self_name:
                hcls, via_instance = cls, True
            elif bt in ('__class__', 'cls', 'type(%s)' % (self_name or 'self'), 'self.__class__') and cls:
                hcls = cls
            elif isinstance(base, ast.Name) and base.id in self.class_methods:
                hcls = base.id
            elif isinstance(base, ast.Name):
                # a new private method called on another object (obj._h(..) with obj a copy of self): the only class that defines _h
                owners = [c for (c, n_) in self.helpers if n_ == f.attr and c is not None]
                if cls and (cls, f.attr) in self.helpers:
                    hcls, via_instance = cls, True
                elif len(owners) == 1:
                    hcls, via_instance = owners[0], True
            if hcls is None:
                return None
            h = self.helpers.get((hcls, f.attr))
            if h is None or (hcls, f.attr) in getattr(self, 'known_now', KNOWN_PRIVATE) or hcls in getattr(self, 'unresolved_scopes', ()):
                return None
            return h, (base if via_instance else None)
        return None

    def _bind(self, h, call, receiver):
        """parameter -> argument expression, or None when the call cannot be bound statically."""
        params = list(h.params)
        env = {}
        if h.cls and not h.static:
            if not params:
                return None
            first = params.pop(0)
            if h.classmethod:
                env[first] = ast.Name(id='__class__', ctx=ast.Load())
            elif receiver is not None:
                env[first] = receiver
            else:
                # Cls._h(obj, ...): explicit receiver
                if not call.args or isinstance(call.args[0], ast.Starred):
                    return None
                env[first] = call.args[0]
                call = ast.Call(func=call.func, args=call.args[1:], keywords=call.keywords)
        if any(isinstance(a, ast.Starred) for a in call.args):
            if not (h.vararg and len(call.args) >= len(params) and not any(isinstance(a, ast.Starred) for a in call.args[:len(params)])):
                return None
        for p, a in zip(params, call.args):
            env[p] = a
        extra = call.args[len(params):]
        if extra:
            if not h.vararg:
                return None
            env[h.vararg] = ast.Tuple(elts=list(extra), ctx=ast.Load())
        elif h.vararg:
            env[h.vararg] = ast.Tuple(elts=[], ctx=ast.Load())
        extra_kw = []
        for k in call.keywords:
            if k.arg is None:
                return None
            if k.arg not in params and k.arg not in h.kwonly:
                if h.kwarg:
                    extra_kw.append(k)
                    continue
                return None
            if k.arg in env:
                return None
            env[k.arg] = k.value
        if h.kwarg:
            env[h.kwarg] = ast.Dict(keys=[ast.Constant(value=k.arg) for k in extra_kw], values=[k.value for k in extra_kw])
        for p in params + h.kwonly:
            if p not in env:
                if p in h.defaults:
                    env[p] = h.defaults[p]
                else:
                    return None
        return env

    # ------------------------------------------------------------------------------------------------ 2. inlining
    def _inline_function(self, fd, cls):
        """One pass over function `fd`; returns number of call sites inlined."""
        dec = _decorators(fd)
        params = [x.arg for x in fd.args.posonlyargs + fd.args.args]
        self_name = params[0] if cls and 'staticmethod' not in dec and params else None
        count = [0]
        me = self
        taken = set(params) | set(_stores(fd.body)) | {x.arg for x in fd.args.kwonlyargs}

        # nested defs / lambdas bound to a name that are expression helpers and only ever called
        local_helpers = {}
        for st in fd.body:
            if isinstance(st, ast.FunctionDef) and not st.decorator_list:
                local_helpers[st.name] = _Helper(None, st, None)
            elif isinstance(st, ast.Assign) and len(st.targets) == 1 and isinstance(st.targets[0], ast.Name) and isinstance(st.value, ast.Lambda):
                lam = st.value
                fake = ast.FunctionDef(name=st.targets[0].id, args=lam.args, body=[ast.Return(value=lam.body)], decorator_list=[], returns=None,
                                       type_comment=None, type_params=[])
                ast.copy_location(fake, st)
                ast.fix_missing_locations(fake)
                local_helpers[st.targets[0].id] = _Helper(None, fake, None)
        for name in list(local_helpers):
            uses = [n for n in ast.walk(fd) if isinstance(n, ast.Name) and n.id == name and isinstance(n.ctx, ast.Load)]
            calls = [n for n in ast.walk(fd) if isinstance(n, ast.Call) and isinstance(n.func, ast.Name) and n.func.id == name]
            # a nested def that is not one expression is usable when every call of it is a statement of its own (h(..) / x = h(..) / return h(..))
            stmt_calls = {id(n.value) for n in ast.walk(fd) if isinstance(n, (ast.Expr, ast.Return)) or (isinstance(n, ast.Assign) and len(n.targets) == 1)
                          if isinstance(getattr(n, 'value', None), ast.Call)}
            usable = _expr_helper(local_helpers[name]) is not None or (calls and all(id(c) in stmt_calls for c in calls))
            if not usable and calls and any(isinstance(x, ast.Yield) for x in _walk_no_defs(local_helpers[name].fd.body)):
                # a nested generator: usable when every call is looped over by a `for` statement or joined in a statement of its own
                loop_iters = {id(n.iter) for n in ast.walk(fd) if isinstance(n, ast.For)}
                joined = {id(n.value.args[0]) for n in ast.walk(fd) if isinstance(n, (ast.Assign, ast.Return)) and isinstance(getattr(n, 'value', None), ast.Call) and
                          isinstance(n.value.func, ast.Attribute) and n.value.func.attr == 'join' and len(n.value.args) == 1 and not n.value.keywords}
                usable = all(id(c) in loop_iters or id(c) in joined for c in calls)
            if len(uses) != len(calls) or not usable or _stores(fd.body).get(name, 0) > 1:
                del local_helpers[name]
            else:
                # recursion?
                if any(isinstance(n, ast.Name) and n.id == name for n in ast.walk(local_helpers[name].fd)):
                    del local_helpers[name]

        def resolve(call):
            if isinstance(call.func, ast.Name) and call.func.id in local_helpers:
                return local_helpers[call.func.id], None
            r = me._resolve(call, cls, self_name)
            if r and r[0].fd is fd:
                return None
            return r

        def fresh_env(h, env, keep=()):
            """rename the helper's own locals that collide with the caller's names (except the names the call statement itself assigns,
            when no argument reads them: they are overwritten by the statement anyway)"""
            ren = {}
            arg_names = {x.id for v in env.values() for x in ast.walk(v) if isinstance(x, ast.Name)}
            for nme in _stores(h.body):
                if nme in h.params or nme in h.kwonly:
                    continue
                if nme in keep and nme not in arg_names:
                    continue
                if nme in taken:
                    k = 1
                    while '%s_%d' % (nme, k) in taken:
                        k += 1
                    ren[nme] = '%s_%d' % (nme, k)
                    taken.add(ren[nme])
                else:
                    taken.add(nme)
            return ren

        # a statement helper called in a loop header (`for m in self._matches(..):`) is called exactly once, before the loop: bind its result first
        def hoist_headers(stmts):
            i = 0
            while i < len(stmts):
                st = stmts[i]
                for fld in ('body', 'orelse', 'finalbody'):
                    L = getattr(st, fld, None)
                    if isinstance(L, list) and L and isinstance(L[0], ast.stmt) and not isinstance(st, (ast.FunctionDef, ast.ClassDef)):
                        hoist_headers(L)
                if isinstance(st, ast.For) and isinstance(st.iter, ast.Call):
                    r = resolve(st.iter)
                    if r and not r[0].other_decorators and _expr_helper(r[0]) is None and \
                            not any(isinstance(x, (ast.Yield, ast.YieldFrom)) for x in _walk_no_defs(r[0].fd.body)):
                        k = 1
                        while 'it_%d' % k in taken:
                            k += 1
                        nm = 'it_%d' % k
                        taken.add(nm)
                        bind = ast.copy_location(ast.Assign(targets=[ast.Name(id=nm, ctx=ast.Store())], value=st.iter, type_comment=None), st)
                        st.iter = ast.copy_location(ast.Name(id=nm, ctx=ast.Load()), st.iter)
                        ast.fix_missing_locations(bind)
                        stmts.insert(i, bind)
                        i += 1
                i += 1
        hoist_headers(fd.body)

        # `''.join(self._parts())` with _parts a private generator helper: the pieces accumulated one by one (then the helper is inlined like any loop)
        def join_of_generator(stmts):
            i = 0
            while i < len(stmts):
                st = stmts[i]
                for fld in ('body', 'orelse', 'finalbody'):
                    L = getattr(st, fld, None)
                    if isinstance(L, list) and L and isinstance(L[0], ast.stmt) and not isinstance(st, (ast.FunctionDef, ast.ClassDef)):
                        join_of_generator(L)
                v = getattr(st, 'value', None) if isinstance(st, (ast.Return, ast.Assign)) else None
                if isinstance(v, ast.Call) and isinstance(v.func, ast.Attribute) and v.func.attr == 'join' and \
                        (isinstance(v.func.value, ast.Name) or (isinstance(v.func.value, ast.Constant) and v.func.value.value != '')) and \
                        len(v.args) == 1 and not v.keywords and isinstance(v.args[0], ast.Call):
                    # SEP.join(gen(..)): the pieces collected in a list by a loop over the helper (inlined afterwards), joined at the end
                    r = resolve(v.args[0])
                    if r and not r[0].other_decorators and any(isinstance(x, ast.Yield) for x in _walk_no_defs(r[0].fd.body)) and \
                            not any(isinstance(x, ast.YieldFrom) for x in _walk_no_defs(r[0].fd.body)):
                        k = 1
                        while 'acc_%d' % k in taken or 'part_%d' % k in taken:
                            k += 1
                        acc, part = 'acc_%d' % k, 'part_%d' % k
                        taken.update((acc, part))
                        init = ast.copy_location(ast.Assign(targets=[ast.Name(id=acc, ctx=ast.Store())], value=ast.List(elts=[], ctx=ast.Load()), type_comment=None), st)
                        loop = ast.copy_location(ast.For(target=ast.Name(id=part, ctx=ast.Store()), iter=v.args[0], body=[
                            ast.Expr(value=ast.Call(func=ast.Attribute(value=ast.Name(id=acc, ctx=ast.Load()), attr='append', ctx=ast.Load()),
                                                    args=[ast.Name(id=part, ctx=ast.Load())], keywords=[]))], orelse=[], type_comment=None), st)
                        v.args[0] = ast.copy_location(ast.Name(id=acc, ctx=ast.Load()), v)
                        for x in (init, loop):
                            ast.fix_missing_locations(x)
                        stmts[i:i] = [init, loop]
                        i += 2
                        i += 1
                        continue
                if isinstance(v, ast.Call) and isinstance(v.func, ast.Attribute) and v.func.attr == 'join' and isinstance(v.func.value, ast.Constant) and \
                        v.func.value.value == '' and len(v.args) == 1 and not v.keywords and isinstance(v.args[0], ast.Call):
                    r = resolve(v.args[0])
                    if r and not r[0].other_decorators and any(isinstance(x, ast.Yield) for x in _walk_no_defs(r[0].fd.body)) and \
                            not any(isinstance(x, ast.YieldFrom) for x in _walk_no_defs(r[0].fd.body)):
                        k = 1
                        while 'acc_%d' % k in taken or 'part_%d' % k in taken:
                            k += 1
                        acc, part = 'acc_%d' % k, 'part_%d' % k
                        taken.update((acc, part))
                        init = ast.copy_location(ast.Assign(targets=[ast.Name(id=acc, ctx=ast.Store())], value=ast.Constant(value=''), type_comment=None), st)
                        loop = ast.copy_location(ast.For(target=ast.Name(id=part, ctx=ast.Store()), iter=v.args[0], body=[
                            ast.AugAssign(target=ast.Name(id=acc, ctx=ast.Store()), op=ast.Add(), value=ast.Name(id=part, ctx=ast.Load()))], orelse=[], type_comment=None), st)
                        st.value = ast.copy_location(ast.Name(id=acc, ctx=ast.Load()), v)
                        for x in (init, loop):
                            ast.fix_missing_locations(x)
                        stmts[i:i] = [init, loop]
                        i += 2
                i += 1
        join_of_generator(fd.body)

        # `[E(x) for x in self._gen()]` with _gen a private generator helper that keeps state between its yields (so it cannot be written into the
        # comprehension): the list built by a loop -- `acc = []; for x in self._gen(): acc.append(E(x))` -- whose helper is then inlined like any loop
        def comp_of_generator(stmts):
            i = 0
            while i < len(stmts):
                st = stmts[i]
                for fld in ('body', 'orelse', 'finalbody'):
                    L = getattr(st, fld, None)
                    if isinstance(L, list) and L and isinstance(L[0], ast.stmt) and not isinstance(st, (ast.FunctionDef, ast.ClassDef)):
                        comp_of_generator(L)
                v = getattr(st, 'value', None) if isinstance(st, (ast.Return, ast.Assign)) else None
                if isinstance(v, ast.ListComp) and len(v.generators) == 1 and not v.generators[0].is_async and isinstance(v.generators[0].iter, ast.Call):
                    r = resolve(v.generators[0].iter)
                    hb = r[0].fd.body if r else []
                    if r and not r[0].other_decorators and any(isinstance(x, ast.Yield) for x in _walk_no_defs(hb)) and \
                            not any(isinstance(x, ast.YieldFrom) for x in _walk_no_defs(hb)) and \
                            any(isinstance(x, (ast.Assign, ast.AugAssign)) for x in _walk_no_defs(hb)):
                        k = 1
                        while 'acc_%d' % k in taken:
                            k += 1
                        acc = 'acc_%d' % k
                        taken.add(acc)
                        g0 = v.generators[0]
                        app = ast.Expr(value=ast.Call(func=ast.Attribute(value=ast.Name(id=acc, ctx=ast.Load()), attr='append', ctx=ast.Load()), args=[v.elt], keywords=[]))
                        inner = [app]
                        if g0.ifs:
                            inner = [ast.If(test=g0.ifs[0] if len(g0.ifs) == 1 else ast.BoolOp(op=ast.And(), values=list(g0.ifs)), body=inner, orelse=[])]
                        init = ast.copy_location(ast.Assign(targets=[ast.Name(id=acc, ctx=ast.Store())], value=ast.List(elts=[], ctx=ast.Load()), type_comment=None), st)
                        loop = ast.copy_location(ast.For(target=g0.target, iter=g0.iter, body=inner, orelse=[], type_comment=None), st)
                        st.value = ast.copy_location(ast.Name(id=acc, ctx=ast.Load()), v)
                        for x in (init, loop):
                            ast.fix_missing_locations(x)
                        stmts[i:i] = [init, loop]
                        i += 2
                i += 1
        comp_of_generator(fd.body)

        class ExprInline(ast.NodeTransformer):
            def visit_Call(self, n):
                self.generic_visit(n)
                r = resolve(n)
                if not r:
                    return n
                h, recv = r
                if h.other_decorators:
                    return n
                eh = _expr_helper(h)
                if eh is None:
                    return n
                env = me._bind(h, n, recv)
                if env is None:
                    return n
                locs, expr = eh
                if any(p in _stores(h.body) for p in env):
                    return n
                e2 = _subst(expr, {k: _subst(v, env) for k, v in locs.items()})
                e2 = _subst(e2, env)
                count[0] += 1
                me.log.append('inlined %s into %s%s' % (h.name, (cls + '.') if cls else '', fd.name))
                return ast.copy_location(e2, n)

            def visit_FunctionDef(self, n):
                return n if n is not fd else self.generic_visit(n)

            def visit_Lambda(self, n):
                return n

        def stmt_inline(stmts):
            out = []
            skip_next = False
            for pos_, st in enumerate(stmts):
                if skip_next:
                    skip_next = False
                    continue
                nxt_ = stmts[pos_ + 1] if pos_ + 1 < len(stmts) else None
                for fld in ('body', 'orelse', 'finalbody'):
                    L = getattr(st, fld, None)
                    if isinstance(L, list) and L and isinstance(L[0], ast.stmt) and not isinstance(st, (ast.FunctionDef, ast.ClassDef)):
                        setattr(st, fld, stmt_inline(L))
                if isinstance(st, ast.Try):
                    for hd in st.handlers:
                        hd.body = stmt_inline(hd.body)
                call = None
                kind = None
                if isinstance(st, ast.Return) and isinstance(st.value, ast.Call):
                    call, kind = st.value, 'return'
                elif isinstance(st, ast.Assign) and len(st.targets) == 1 and isinstance(st.value, ast.Call):
                    call, kind = st.value, 'assign'
                elif isinstance(st, ast.Expr) and isinstance(st.value, ast.Call):
                    call, kind = st.value, 'expr'
                r = resolve(call) if call is not None else None
                if not r:
                    out.append(st)
                    continue
                h, recv = r
                flat = sum(1 for _ in _walk_no_defs(h.body) if isinstance(_, ast.stmt))
                if h.other_decorators or flat > MAX_BODY or _expr_helper(h) is not None or \
                        any(isinstance(n, (ast.Yield, ast.YieldFrom, ast.Global, ast.Nonlocal)) for n in _walk_no_defs(h.body)) or \
                        any(isinstance(n, ast.Call) and resolve(n) and resolve(n)[0] is h for n in _walk_no_defs(h.body)):
                    out.append(st)
                    continue
                env = me._bind(h, call, recv)
                if env is None:
                    out.append(st)
                    continue
                body = astcopy(h.body)
                pre = []
                sto = _stores(body)
                keep = set()
                if kind == 'assign':
                    keep = {x.id for x in ast.walk(st.targets[0]) if isinstance(x, ast.Name)}
                ren = fresh_env(h, env, keep)
                # parameters that the helper assigns get a local of their own
                uses = {}
                for n_ in _walk_no_defs(body):
                    if isinstance(n_, ast.Name) and isinstance(n_.ctx, ast.Load):
                        uses[n_.id] = uses.get(n_.id, 0) + 1
                for p in list(env):
                    complex_arg = any(isinstance(x, (ast.Call, ast.ListComp, ast.GeneratorExp, ast.DictComp, ast.SetComp)) for x in ast.walk(env[p]))
                    if p in sto or (complex_arg and uses.get(p, 0) != 1):
                        newp = p
                        k = 0
                        while newp in taken:
                            k += 1
                            newp = '%s_%d' % (p, k)
                        taken.add(newp)
                        pre.append(ast.copy_location(ast.Assign(targets=[ast.Name(id=newp, ctx=ast.Store())], value=astcopy(env[p])), st))
                        if newp != p:
                            ren[p] = newp
                        del env[p]
                if ren:
                    body = [_Rename(ren).visit(b) for b in body]
                body = [_Subst(env).visit(b) for b in body]
                if kind == 'return':
                    new = body
                    if not (new and isinstance(new[-1], (ast.Return, ast.Raise))) and not (new and isinstance(new[-1], ast.If) and _all_paths_end(new[-1])):
                        new = new + [ast.copy_location(ast.Return(value=ast.Constant(value=None)), st)]
                elif kind == 'assign':
                    tgt = st.targets[0]
                    new = _convert_returns(body, lambda v: [ast.copy_location(ast.Assign(targets=[astcopy(tgt)],
                                                                                        value=v if v is not None else ast.Constant(value=None)), st)])
                    if new is None and isinstance(nxt_, ast.Return) and nxt_.value is not None and ast.unparse(nxt_.value) == ast.unparse(tgt):
                        # `t = h(..); return t`: every `return e` of the helper becomes `t = e; return t` wherever it stands
                        class RR(ast.NodeTransformer):
                            def visit_Return(self, n):
                                a_ = ast.copy_location(ast.Assign(targets=[astcopy(tgt)], value=n.value if n.value is not None else ast.Constant(value=None)), n)
                                r_ = ast.copy_location(ast.Return(value=astcopy(nxt_.value)), n)
                                return [a_, r_]

                            def visit_FunctionDef(self, n):
                                return n

                            def visit_Lambda(self, n):
                                return n
                        new = [RR().visit(b) for b in body]
                        new = [y for x in new for y in (x if isinstance(x, list) else [x])]
                        if not (new and isinstance(new[-1], (ast.Return, ast.Raise))):
                            new = new + [ast.copy_location(ast.Assign(targets=[astcopy(tgt)], value=ast.Constant(value=None)), st), astcopy(nxt_)]
                        skip_next = True
                else:
                    new = _convert_returns(body, lambda v: ([ast.copy_location(ast.Expr(value=v), st)] if isinstance(v, ast.Call) else []))
                if new is None:
                    out.append(st)
                    continue
                for n in pre + new:
                    ast.fix_missing_locations(n)
                out.extend(pre + (new or [ast.copy_location(ast.Pass(), st)]))
                count[0] += 1
                me.log.append('inlined %s into %s%s' % (h.name, (cls + '.') if cls else '', fd.name))
            return out

        def gen_inline(stmts):
            """`for x in g(..): BODY` with g a new private generator helper whose yields are statements of their own: the helper's body with
            each `yield e` replaced by `x = e; BODY` (BODY without break; `continue` only if the yield ends its loop body)"""
            out = []
            for st in stmts:
                for fld in ('body', 'orelse', 'finalbody'):
                    L = getattr(st, fld, None)
                    if isinstance(L, list) and L and isinstance(L[0], ast.stmt) and not isinstance(st, (ast.FunctionDef, ast.ClassDef)):
                        setattr(st, fld, gen_inline(L))
                if not (isinstance(st, ast.For) and isinstance(st.iter, ast.Call) and not st.orelse and isinstance(st.target, (ast.Name, ast.Tuple))):
                    out.append(st)
                    continue
                r = resolve(st.iter)
                if not r:
                    out.append(st)
                    continue
                h, recv = r
                ys = [n for n in _walk_no_defs(h.body) if isinstance(n, (ast.Yield, ast.YieldFrom))]
                if not ys or any(isinstance(n, ast.YieldFrom) for n in ys) or h.other_decorators:
                    out.append(st)
                    continue
                ystmts = [n for n in _walk_no_defs(h.body) if isinstance(n, ast.Expr) and isinstance(n.value, ast.Yield)]
                has_break = any(isinstance(n, ast.Break) for b in st.body for n in _walk_no_defs([b]))
                if has_break:
                    # a break in the caller's body leaves the helper's loop: the same thing when the helper is one loop, nothing after it, and every
                    # yield sits in that loop and in no inner one
                    hb = [x for x in h.body if not (isinstance(x, ast.Expr) and isinstance(x.value, ast.Constant))]
                    one_loop = len(hb) == 1 and isinstance(hb[0], (ast.For, ast.While)) and not hb[0].orelse
                    inner = {id(y) for lp_ in _walk_no_defs(hb[0].body) if isinstance(lp_, (ast.For, ast.While)) for y in ast.walk(lp_)} if one_loop else set()
                    # (a break of the caller's own inner loops stays what it is)
                    own_inner = {id(y) for b in st.body for lp_ in _walk_no_defs([b]) if isinstance(lp_, (ast.For, ast.While)) for y in ast.walk(lp_)}
                    outer_breaks = [n for b in st.body for n in _walk_no_defs([b]) if isinstance(n, ast.Break) and id(n) not in own_inner]
                    has_break = bool(outer_breaks) and not (one_loop and not any(id(y) in inner for y in ys))
                if len(ystmts) != len(ys) or has_break:
                    out.append(st)
                    continue
                has_continue = any(isinstance(n, ast.Continue) for b in st.body for n in _walk_no_defs([b]))
                env = me._bind(h, st.iter, recv)
                if env is None:
                    out.append(st)
                    continue
                pre = []
                bad_param = False
                ren0 = {}
                for p in [p for p in env if p in _stores(h.body)]:
                    a_ = env[p]
                    later = [n for n in ast.walk(fd) if isinstance(n, ast.Name) and n.id == p and isinstance(n.ctx, ast.Load) and
                             getattr(n, 'lineno', 0) > getattr(st, 'end_lineno', st.lineno)]
                    if isinstance(a_, ast.Name) and a_.id == p and not later:
                        del env[p]            # the helper works on the caller's variable of the same name, which is dead afterwards
                    else:
                        newp, k = p, 0
                        while newp in taken:
                            k += 1
                            newp = '%s_%d' % (p, k)
                        taken.add(newp)
                        pre.append(ast.copy_location(ast.Assign(targets=[ast.Name(id=newp, ctx=ast.Store())], value=astcopy(a_)), st))
                        if newp != p:
                            ren0[p] = newp
                        del env[p]
                body = astcopy(h.body)
                # the helper yields one of its own locals every time and the caller binds it to a plain name: use the caller's name for it
                yvals = {ast.unparse(y.value) if y.value is not None else None for y in ys}
                direct_name = None
                if len(yvals) == 1 and isinstance(st.target, ast.Name) and isinstance(ys[0].value, ast.Name) and ys[0].value.id in _stores(h.body) \
                        and ys[0].value.id not in h.params:
                    direct_name = ys[0].value.id
                ren = fresh_env(h, env, keep={direct_name} if direct_name else ())
                if direct_name:
                    ren.pop(direct_name, None)
                    if direct_name != st.target.id:
                        ren[direct_name] = st.target.id
                ren.update(ren0)
                if ren:
                    body = [_Rename(ren).visit(b) for b in body]
                body = [_Subst(env).visit(b) for b in body]
                ok = [True]

                def repl(stmts2, in_loop):
                    res = []
                    for i_, x in enumerate(stmts2):
                        if isinstance(x, ast.Expr) and isinstance(x.value, ast.Yield) and isinstance(st.target, ast.Name) and len(st.body) == 1 and \
                                isinstance(st.body[0], ast.AugAssign) and isinstance(st.body[0].value, ast.Name) and st.body[0].value.id == st.target.id and \
                                x.value.value is not None and not direct_name:
                            # the caller does nothing but accumulate what is yielded: `acc += <yielded>`
                            res.append(ast.copy_location(ast.AugAssign(target=astcopy(st.body[0].target), op=st.body[0].op, value=x.value.value), x))
                            continue
                        if isinstance(x, ast.Expr) and isinstance(x.value, ast.Yield):
                            if has_continue and not (in_loop and i_ == len(stmts2) - 1):
                                ok[0] = False
                            if not (direct_name and isinstance(x.value.value, ast.Name) and x.value.value.id == st.target.id):
                                res.append(ast.copy_location(ast.Assign(targets=[astcopy(st.target)], value=x.value.value or ast.Constant(value=None)), x))
                            res.extend(astcopy(st.body))
                            continue
                        for fld in ('body', 'orelse', 'finalbody'):
                            L = getattr(x, fld, None)
                            if isinstance(L, list) and L and isinstance(L[0], ast.stmt) and not isinstance(x, (ast.FunctionDef, ast.ClassDef)):
                                setattr(x, fld, repl(L, in_loop=isinstance(x, (ast.For, ast.While)) and fld == 'body'))
                        if isinstance(x, ast.Return):
                            ok[0] = ok[0] and False      # a bare return inside a generator ends the iteration only: not expressible inline
                        res.append(x)
                    return res
                new = repl(body, False)
                if not ok[0]:
                    out.append(st)
                    continue
                new = pre + new
                for n in new:
                    ast.fix_missing_locations(n)
                out.extend(new)
                count[0] += 1
                me.log.append('inlined generator %s into %s%s' % (h.name, (cls + '.') if cls else '', fd.name))
            return out

        fd.body = stmt_inline(fd.body)
        fd.body = gen_inline(fd.body)
        class CompGen(ast.NodeTransformer):
            """`(E(x) for x in self._gen())` with _gen a new private generator helper that is nothing but nested for-loops (and ifs) around one `yield v`:
            the comprehension with the helper's loops as its own generators and x written as v"""
            def _conv(self, n):
                self.generic_visit(n)
                if len(n.generators) != 1 or n.generators[0].is_async or not (
                        isinstance(n.generators[0].target, ast.Name) or
                        (isinstance(n.generators[0].target, ast.Tuple) and all(isinstance(t_, ast.Name) for t_ in n.generators[0].target.elts))):
                    return n
                g0 = n.generators[0]
                if not isinstance(g0.iter, ast.Call):
                    return n
                r = resolve(g0.iter)
                if not r:
                    return n
                h, recv = r
                if h.other_decorators or any(isinstance(x, ast.Return) for x in _walk_no_defs(h.body)):
                    return n
                env = me._bind(h, g0.iter, recv)
                if env is None:
                    return n
                gens = []
                cur = [b for b in h.body if not (isinstance(b, ast.Expr) and isinstance(b.value, ast.Constant))]
                val = None
                while True:
                    if len(cur) != 1:
                        return n
                    st = cur[0]
                    if isinstance(st, ast.For) and not st.orelse:
                        gens.append(ast.comprehension(target=st.target, iter=st.iter, ifs=[], is_async=0))
                        cur = st.body
                    elif isinstance(st, ast.If) and not st.orelse and gens:
                        gens[-1].ifs.append(st.test)
                        cur = st.body
                    elif isinstance(st, ast.Expr) and isinstance(st.value, ast.Yield) and st.value.value is not None and gens:
                        val = st.value.value
                        break
                    elif isinstance(st, ast.Expr) and isinstance(st.value, ast.YieldFrom):
                        # `yield from X` is `for y_ in X: yield y_`
                        gens.append(ast.comprehension(target=ast.Name(id='y_', ctx=ast.Store()), iter=st.value.value, ifs=[], is_async=0))
                        val = ast.Name(id='y_', ctx=ast.Load())
                        break
                    else:
                        return n
                bound = {x.id for g in gens for x in ast.walk(g.target) if isinstance(x, ast.Name)}
                used = {x.id for x in ast.walk(n) if isinstance(x, ast.Name)} | taken
                if bound & used:
                    ren = {}
                    for b in sorted(bound & used):
                        k = 1
                        while '%s_%d' % (b, k) in used | bound:
                            k += 1
                        ren[b] = '%s_%d' % (b, k)
                    gens = [_Rename(ren).visit(astcopy(g)) for g in gens]
                    val = _Rename(ren).visit(astcopy(val))
                gens = [_Subst(env).visit(astcopy(g)) for g in gens]
                val = _Subst(env).visit(astcopy(val))
                if isinstance(g0.target, ast.Name):
                    sub = {g0.target.id: val}
                elif isinstance(val, ast.Tuple) and len(val.elts) == len(g0.target.elts):
                    # a pair yielded and unpacked: element by element
                    sub = {t_.id: v_ for t_, v_ in zip(g0.target.elts, val.elts)}
                else:
                    return n
                for fld in ('elt', 'key', 'value'):
                    if hasattr(n, fld):
                        setattr(n, fld, _Subst(sub).visit(getattr(n, fld)))
                if g0.ifs:
                    gens[-1].ifs.extend(_Subst(sub).visit(c) for c in g0.ifs)
                n.generators = gens
                ast.fix_missing_locations(n)
                count[0] += 1
                me.log.append('inlined generator %s into a comprehension of %s%s' % (h.name, (cls + '.') if cls else '', fd.name))
                return n

            visit_GeneratorExp = _conv
            visit_ListComp = _conv
            visit_SetComp = _conv
            visit_DictComp = _conv

            def visit_FunctionDef(self, n):
                return n if n is not fd else self.generic_visit(n)

            def visit_Lambda(self, n):
                return n
        CompGen().visit(fd)
        ExprInline().visit(fd)
        if local_helpers and count[0]:
            # drop the local helper definitions that are no longer referenced
            def still_used(name):
                return any(isinstance(n, ast.Name) and n.id == name and isinstance(n.ctx, ast.Load) for n in ast.walk(fd))
            fd.body = [st for st in fd.body if not ((isinstance(st, ast.FunctionDef) and st.name in local_helpers and not still_used(st.name)) or
                                                   (isinstance(st, ast.Assign) and isinstance(st.value, ast.Lambda) and isinstance(st.targets[0], ast.Name) and
                                                    st.targets[0].id in local_helpers and not still_used(st.targets[0].id)))] or fd.body
        return count[0]

    def inline(self):
        for _ in range(MAX_ROUNDS):
            self._index()
            n = 0
            for tree in self.trees.values():
                for st in tree.body:
                    if isinstance(st, ast.ClassDef):
                        for x in st.body:
                            if isinstance(x, ast.FunctionDef):
                                n += self._inline_function(x, st.name)
                    elif isinstance(st, ast.FunctionDef):
                        n += self._inline_function(st, None)
            if not n:
                break

    # ------------------------------------------------------------------------------------------------ 3. unbound method calls
    def unbound_calls(self):
        self._index()
        cm = self.class_methods

        class U(ast.NodeTransformer):
            def visit_Call(self, n):
                self.generic_visit(n)
                f = n.func
                if isinstance(f, ast.Attribute) and isinstance(f.value, ast.Name) and f.value.id in cm and f.attr in cm[f.value.id] and n.args and \
                        not isinstance(n.args[0], ast.Starred):
                    h = cm[f.value.id][f.attr]
                    if not h.static and not h.classmethod and not f.attr.startswith('__') and 'property' not in _decorators(h.fd):
                        recv = n.args[0]
                        if isinstance(recv, (ast.Name, ast.Attribute, ast.Subscript, ast.Call)):
                            new = ast.Call(func=ast.copy_location(ast.Attribute(value=recv, attr=f.attr, ctx=ast.Load()), f), args=n.args[1:], keywords=n.keywords)
                            return ast.copy_location(new, n)
                return n
        for tree in self.trees.values():
            U().visit(tree)

    def simplify(self):
        def is_str_expr(e):
            if isinstance(e, ast.Constant):
                return isinstance(e.value, str)
            if isinstance(e, ast.JoinedStr):
                return True
            if isinstance(e, ast.Call) and isinstance(e.func, ast.Name) and e.func.id == 'str' and len(e.args) <= 1 and not e.keywords:
                return True
            if isinstance(e, ast.Call) and isinstance(e.func, ast.Attribute) and e.func.attr in ('join', 'format') and is_str_expr(e.func.value):
                return True
            if isinstance(e, ast.BinOp) and isinstance(e.op, ast.Add):
                return is_str_expr(e.left) or is_str_expr(e.right)
            return False

        class S(ast.NodeTransformer):
            def visit_Call(self, n):
                self.generic_visit(n)
                # str(<an expression that is a str already>) is that expression
                if isinstance(n.func, ast.Name) and n.func.id == 'str' and len(n.args) == 1 and not n.keywords and is_str_expr(n.args[0]):
                    return n.args[0]
                # map(f, xs) -> (f(x_) for x_ in xs);  getattr(o, 'name') -> o.name
                if isinstance(n.func, ast.Name) and n.func.id == 'map' and len(n.args) == 2 and not n.keywords and isinstance(n.args[0], (ast.Name, ast.Attribute)):
                    return ast.copy_location(ast.GeneratorExp(
                        elt=ast.Call(func=n.args[0], args=[ast.Name(id='x_', ctx=ast.Load())], keywords=[]),
                        generators=[ast.comprehension(target=ast.Name(id='x_', ctx=ast.Store()), iter=n.args[1], ifs=[], is_async=0)]), n)
                if isinstance(n.func, ast.Name) and n.func.id == 'getattr' and len(n.args) == 2 and not n.keywords and isinstance(n.args[1], ast.Constant) and \
                        isinstance(n.args[1].value, str) and n.args[1].value.isidentifier():
                    return ast.copy_location(ast.Attribute(value=n.args[0], attr=n.args[1].value, ctx=ast.Load()), n)
                if any(isinstance(a, ast.Starred) and isinstance(a.value, (ast.Tuple, ast.List)) for a in n.args):
                    args = []
                    for a in n.args:
                        if isinstance(a, ast.Starred) and isinstance(a.value, (ast.Tuple, ast.List)):
                            args.extend(a.value.elts)
                        else:
                            args.append(a)
                    n.args = args
                if any(k.arg is None and isinstance(k.value, ast.Dict) and all(isinstance(x, ast.Constant) and isinstance(x.value, str) for x in k.value.keys)
                       for k in n.keywords):
                    kws = []
                    for k in n.keywords:
                        if k.arg is None and isinstance(k.value, ast.Dict) and all(isinstance(x, ast.Constant) and isinstance(x.value, str) for x in k.value.keys):
                            kws.extend(ast.keyword(arg=kk.value, value=vv) for kk, vv in zip(k.value.keys, k.value.values))
                        else:
                            kws.append(k)
                    n.keywords = kws
                return n
        class J(ast.NodeTransformer):
            # a comprehension over a literal tuple is the literal list of its elements; 'sep'.join of a literal list is a concatenation
            def visit_ListComp(self, n):
                self.generic_visit(n)
                it_ = n.generators[0].iter if len(n.generators) == 1 else None
                if isinstance(it_, ast.Call) and isinstance(it_.func, ast.Name) and it_.func.id == 'range' and 1 <= len(it_.args) <= 3 and not it_.keywords and \
                        all(isinstance(a_, ast.Constant) and isinstance(a_.value, int) and not isinstance(a_.value, bool) for a_ in it_.args) and \
                        not (len(it_.args) == 3 and it_.args[2].value == 0) and len(range(*[a_.value for a_ in it_.args])) <= 8:
                    n.generators[0].iter = ast.copy_location(ast.Tuple(elts=[ast.Constant(value=k_) for k_ in range(*[a_.value for a_ in it_.args])], ctx=ast.Load()), it_)
                    ast.fix_missing_locations(n.generators[0].iter)
                    n.elt = self.visit(n.elt) if False else n.elt
                it_ = n.generators[0].iter if len(n.generators) == 1 else None
                if isinstance(it_, ast.Call) and isinstance(it_.func, ast.Name) and it_.func.id == 'zip' and len(it_.args) >= 2 and not it_.keywords and \
                        all(isinstance(a_, (ast.List, ast.Tuple)) and not any(isinstance(e_, ast.Starred) for e_ in a_.elts) for a_ in it_.args) and \
                        len({len(a_.elts) for a_ in it_.args}) == 1 and len(it_.args[0].elts) <= 8 and \
                        all(isinstance(e_, (ast.Name, ast.Constant)) for a_ in it_.args for e_ in a_.elts):
                    # zip of literal lists of names: the literal rows
                    n.generators[0].iter = ast.copy_location(ast.Tuple(elts=[ast.Tuple(elts=[astcopy(a_.elts[k_]) for a_ in it_.args], ctx=ast.Load())
                                                                             for k_ in range(len(it_.args[0].elts))], ctx=ast.Load()), it_)
                    ast.fix_missing_locations(n.generators[0].iter)
                g0_ = n.generators[0] if len(n.generators) == 1 else None
                if g0_ is not None and not g0_.ifs and isinstance(g0_.target, ast.Tuple) and all(isinstance(t_, ast.Name) for t_ in g0_.target.elts) and \
                        isinstance(g0_.iter, (ast.Tuple, ast.List)) and len(g0_.iter.elts) <= 8 and \
                        all(isinstance(r_, (ast.Tuple, ast.List)) and len(r_.elts) == len(g0_.target.elts) and
                            all(isinstance(e_, (ast.Name, ast.Constant)) for e_ in r_.elts) for r_ in g0_.iter.elts):
                    return ast.copy_location(ast.List(elts=[_Subst({t_.id: e_ for t_, e_ in zip(g0_.target.elts, r_.elts)}).visit(astcopy(n.elt))
                                                            for r_ in g0_.iter.elts], ctx=ast.Load()), n)
                if len(n.generators) == 1 and not n.generators[0].ifs and isinstance(n.generators[0].target, ast.Name) and \
                        isinstance(n.generators[0].iter, (ast.Tuple, ast.List)) and len(n.generators[0].iter.elts) <= 8 and \
                        not any(isinstance(e_, ast.Starred) for e_ in n.generators[0].iter.elts):
                    nm_ = n.generators[0].target.id
                    return ast.copy_location(ast.List(elts=[_Subst({nm_: e_}).visit(astcopy(n.elt)) for e_ in n.generators[0].iter.elts], ctx=ast.Load()), n)
                return n

            def visit_GeneratorExp(self, n):
                return self.generic_visit(n)

            def visit_BinOp(self, n):
                self.generic_visit(n)
                # arithmetic on integer literals; a literal list repeated a literal number of times
                def ci(e_):
                    return e_.value if isinstance(e_, ast.Constant) and isinstance(e_.value, int) and not isinstance(e_.value, bool) else None
                a_, b_ = ci(n.left), ci(n.right)
                if a_ is not None and b_ is not None and isinstance(n.op, (ast.Add, ast.Sub, ast.Mult)) and abs(a_) < 10 ** 6 and abs(b_) < 10 ** 6:
                    v_ = a_ + b_ if isinstance(n.op, ast.Add) else a_ - b_ if isinstance(n.op, ast.Sub) else a_ * b_
                    return ast.copy_location(ast.Constant(value=v_), n)
                if isinstance(n.op, ast.Mult) and isinstance(n.left, ast.List) and b_ is not None and 0 <= b_ * len(n.left.elts) <= 8 and \
                        all(isinstance(e_, (ast.Constant, ast.Name)) for e_ in n.left.elts):
                    return ast.copy_location(ast.List(elts=[astcopy(e_) for _k in range(b_) for e_ in n.left.elts], ctx=ast.Load()), n)
                return n

            def visit_Assign(self, n):
                # `a, b, c = (f(x) for x in (p, q, r))`: unpacking consumes the generator at once, like the list
                if len(n.targets) == 1 and isinstance(n.targets[0], (ast.Tuple, ast.List)) and isinstance(n.value, ast.GeneratorExp):
                    n.value = ast.copy_location(ast.ListComp(elt=n.value.elt, generators=n.value.generators), n.value)
                return self.generic_visit(n)

            def visit_Call(self, n):
                self.generic_visit(n)
                # range(X - 1, -1, -1) counts X-1 .. 0: reversed(range(X))
                if isinstance(n.func, ast.Name) and n.func.id == 'range' and len(n.args) == 3 and not n.keywords:
                    def neg1(e_):
                        return (isinstance(e_, ast.UnaryOp) and isinstance(e_.op, ast.USub) and isinstance(e_.operand, ast.Constant) and e_.operand.value == 1) or \
                            (isinstance(e_, ast.Constant) and e_.value == -1)
                    a0 = n.args[0]
                    if neg1(n.args[1]) and neg1(n.args[2]) and isinstance(a0, ast.BinOp) and isinstance(a0.op, ast.Sub) and \
                            isinstance(a0.right, ast.Constant) and a0.right.value == 1:
                        inner = ast.Call(func=ast.Name(id='range', ctx=ast.Load()), args=[a0.left], keywords=[])
                        return ast.copy_location(ast.Call(func=ast.Name(id='reversed', ctx=ast.Load()), args=[inner], keywords=[]), n)
                if isinstance(n.func, ast.Attribute) and n.func.attr == 'join' and len(n.args) == 1 and not n.keywords and \
                        isinstance(n.func.value, (ast.Constant, ast.Name)) and isinstance(n.args[0], (ast.List, ast.Tuple)) and 1 <= len(n.args[0].elts) <= 8 and \
                        not any(isinstance(e_, ast.Starred) for e_ in n.args[0].elts) and \
                        (not isinstance(n.func.value, ast.Constant) or isinstance(n.func.value.value, str)):
                    out = n.args[0].elts[0]
                    for e_ in n.args[0].elts[1:]:
                        out = ast.BinOp(left=ast.BinOp(left=out, op=ast.Add(), right=astcopy(n.func.value)), op=ast.Add(), right=e_)
                    return ast.copy_location(out, n)
                return n

        # module-level constants that are literal tuples: `lo, hi = PAIR` is `lo = PAIR[0]; hi = PAIR[1]`
        const_tuples = {}
        for tree_ in self.trees.values():
            for st_ in tree_.body:
                if isinstance(st_, ast.Assign) and len(st_.targets) == 1 and isinstance(st_.targets[0], ast.Name) and isinstance(st_.value, ast.Tuple) and \
                        not any(isinstance(e_, ast.Starred) for e_ in st_.value.elts):
                    const_tuples[st_.targets[0].id] = len(st_.value.elts) if st_.targets[0].id not in const_tuples else None

        class T(ast.NodeTransformer):
            def visit_Assign(self, n):
                if len(n.targets) == 1 and isinstance(n.targets[0], (ast.Tuple, ast.List)) and isinstance(n.value, ast.Name) and \
                        const_tuples.get(n.value.id) == len(n.targets[0].elts) and all(isinstance(x, ast.Name) for x in n.targets[0].elts):
                    return [ast.copy_location(ast.Assign(targets=[ast.Name(id=x.id, ctx=ast.Store())], value=ast.Subscript(
                        value=ast.Name(id=n.value.id, ctx=ast.Load()), slice=ast.Constant(value=k_), ctx=ast.Load()), type_comment=None), n)
                        for k_, x in enumerate(n.targets[0].elts)]
                if len(n.targets) == 1 and isinstance(n.targets[0], (ast.Tuple, ast.List)) and isinstance(n.value, (ast.Tuple, ast.List)) and \
                        len(n.targets[0].elts) == len(n.value.elts) and all(isinstance(x, ast.Name) for x in n.targets[0].elts) and \
                        not any(isinstance(x, ast.Starred) for x in n.value.elts):
                    tg = [x.id for x in n.targets[0].elts]
                    vs = n.value.elts
                    if tg == [getattr(v, 'id', None) for v in vs]:
                        return ast.copy_location(ast.Pass(), n)
                    # independent components: a, b = (x, y) -> a = x; b = y   (no earlier target is read by a later value)
                    safe = True
                    for i_, t_ in enumerate(tg):
                        if getattr(vs[i_], 'id', None) == t_:
                            continue
                        for v_ in vs[i_ + 1:]:
                            if t_ in {x.id for x in ast.walk(v_) if isinstance(x, ast.Name)}:
                                safe = False
                    if safe:
                        out = [ast.copy_location(ast.Assign(targets=[ast.Name(id=t_, ctx=ast.Store())], value=v_, type_comment=None), n)
                               for t_, v_ in zip(tg, vs) if getattr(v_, 'id', None) != t_]
                        return out or ast.copy_location(ast.Pass(), n)
                # o.a, o.b = (x, y) with one root object o: o.a = x; o.b = y when the later values mention o only as `o.<attribute not stored earlier>`
                if len(n.targets) == 1 and isinstance(n.targets[0], (ast.Tuple, ast.List)) and isinstance(n.value, (ast.Tuple, ast.List)) and \
                        len(n.targets[0].elts) == len(n.value.elts) and len(n.value.elts) >= 2 and \
                        all(isinstance(x, ast.Attribute) and isinstance(x.value, ast.Name) for x in n.targets[0].elts) and \
                        len({x.value.id for x in n.targets[0].elts}) == 1 and len({x.attr for x in n.targets[0].elts}) == len(n.targets[0].elts) and \
                        not any(isinstance(x, ast.Starred) for x in n.value.elts):
                    root = n.targets[0].elts[0].value.id
                    safe = True
                    for i_, t_ in enumerate(n.targets[0].elts):
                        earlier = {x.attr for x in n.targets[0].elts[:i_]}
                        v_ = n.value.elts[i_]
                        attr_roots = {id(a_.value) for a_ in ast.walk(v_) if isinstance(a_, ast.Attribute) and isinstance(a_.value, ast.Name) and
                                      a_.value.id == root and a_.attr not in earlier and isinstance(a_.ctx, ast.Load)}
                        if any(isinstance(x, ast.Name) and x.id == root and id(x) not in attr_roots for x in ast.walk(v_)):
                            safe = False
                        if any(isinstance(c_, ast.Call) and isinstance(c_.func, ast.Attribute) and isinstance(c_.func.value, ast.Name) and c_.func.value.id == root
                               for c_ in ast.walk(v_)):
                            safe = False
                    if safe:
                        return [ast.copy_location(ast.Assign(targets=[ast.Attribute(value=ast.Name(id=root, ctx=ast.Load()), attr=t_.attr, ctx=ast.Store())],
                                                             value=v_, type_comment=None), n) for t_, v_ in zip(n.targets[0].elts, n.value.elts)]
                return n
        def const_int(e):
            if isinstance(e, ast.Constant) and isinstance(e.value, int) and not isinstance(e.value, bool):
                return e.value
            if isinstance(e, ast.BinOp) and isinstance(e.op, (ast.Add, ast.Sub, ast.Mult)):
                a, b = const_int(e.left), const_int(e.right)
                if a is None or b is None:
                    return None
                return a + b if isinstance(e.op, ast.Add) else a - b if isinstance(e.op, ast.Sub) else a * b
            if isinstance(e, ast.UnaryOp) and isinstance(e.op, ast.USub) and const_int(e.operand) is not None:
                return -const_int(e.operand)
            return None

        tables = {}

        def unroll(stmts):
            """`for i in range(<constants>)` with at most 8 iterations and a body without jumps: the body once per value of i"""
            out = []
            for st in stmts:
                for fld in ('body', 'orelse', 'finalbody'):
                    L = getattr(st, fld, None)
                    if isinstance(L, list) and L and isinstance(L[0], ast.stmt) and not isinstance(st, (ast.FunctionDef, ast.ClassDef)):
                        setattr(st, fld, unroll(L))
                if isinstance(st, ast.Try):
                    for h in st.handlers:
                        h.body = unroll(h.body)
                it_ = st.iter if isinstance(st, ast.For) else None
                if isinstance(it_, ast.Name) and it_.id in tables:
                    it_ = tables[it_.id]
                if isinstance(st, ast.For) and isinstance(st.target, ast.Tuple) and not st.orelse and isinstance(it_, (ast.Tuple, ast.List)) and \
                        1 <= len(it_.elts) <= 8 and all(isinstance(e_, (ast.Tuple, ast.List)) and len(e_.elts) == len(st.target.elts) for e_ in it_.elts) and \
                        all(isinstance(x, ast.Name) for x in st.target.elts):
                    # a loop over a literal table of tuples: one copy of the body per row
                    jumps = any(isinstance(n, (ast.Break, ast.Continue)) for n in _walk_no_defs(st.body))
                    tnames = [x.id for x in st.target.elts]
                    if not jumps and not any(t_ in _stores(st.body) for t_ in tnames):
                        for row in it_.elts:
                            for b in st.body:
                                out.append(_Subst(dict(zip(tnames, row.elts))).visit(astcopy(b)))
                        continue
                if isinstance(st, ast.For) and isinstance(st.target, ast.Name) and not st.orelse and isinstance(st.iter, (ast.Tuple, ast.List)) and \
                        len(st.iter.elts) <= 8 and not any(isinstance(e_, ast.Starred) for e_ in st.iter.elts):
                    # a loop over a literal tuple (typically the *args of an inlined helper)
                    jumps = any(isinstance(n, (ast.Break, ast.Continue)) for n in _walk_no_defs(st.body))
                    if not jumps and st.target.id not in _stores(st.body):
                        for e_ in st.iter.elts:
                            for b in st.body:
                                out.append(_Subst({st.target.id: e_}).visit(astcopy(b)))
                        continue
                if isinstance(st, ast.For) and isinstance(st.target, ast.Name) and not st.orelse and isinstance(st.iter, ast.Call) and \
                        isinstance(st.iter.func, ast.Name) and st.iter.func.id == 'range' and not st.iter.keywords and 1 <= len(st.iter.args) <= 3:
                    args = [const_int(a) for a in st.iter.args]
                    if None not in args:
                        vals = list(range(*args)) if not (len(args) == 3 and args[2] == 0) else None
                        jumps = any(isinstance(n, (ast.Break, ast.Continue)) for n in _walk_no_defs(st.body))
                        reassigned = st.target.id in _stores(st.body)
                        if vals is not None and len(vals) <= 8 and not jumps and not reassigned:
                            for v in vals:
                                for b in st.body:
                                    nb = _Subst({st.target.id: ast.Constant(value=v)}).visit(astcopy(b))
                                    out.append(nb)
                            continue
                out.append(st)
            return out

        class F(ast.NodeTransformer):
            # constant arithmetic left behind by the substitutions: 3 - 1 -> 2
            def visit_BinOp(self, n):
                self.generic_visit(n)
                v = const_int(n)
                if v is not None and isinstance(n.left, ast.Constant) and isinstance(n.right, ast.Constant):
                    return ast.copy_location(ast.Constant(value=v), n)
                return n
        for tree in self.trees.values():
            S().visit(tree)
            J().visit(tree)
            T().visit(tree)
            _ConstCond().visit(tree)
            ast.fix_missing_locations(tree)
            # module tables: a module-level name bound once to a literal tuple of tuples of constants / dotted names (enum members): immutable, the same
            # at every call
            mod_tables = {}
            mod_sto = {}
            for x_ in ast.walk(tree):
                if isinstance(x_, ast.Name) and isinstance(x_.ctx, (ast.Store, ast.Del)):
                    mod_sto[x_.id] = mod_sto.get(x_.id, 0) + 1
            for st_ in tree.body:
                if isinstance(st_, ast.Assign) and len(st_.targets) == 1 and isinstance(st_.targets[0], ast.Name) and mod_sto.get(st_.targets[0].id) == 1 and \
                        isinstance(st_.value, ast.Tuple) and 1 <= len(st_.value.elts) <= 8 and all(isinstance(e_, ast.Tuple) for e_ in st_.value.elts) and \
                        all(isinstance(y_, (ast.Tuple, ast.Attribute, ast.Constant, ast.Name, ast.Load)) for e_ in st_.value.elts for y_ in ast.walk(e_)) and \
                        all(isinstance(y_.value, (ast.Name, ast.Attribute)) for e_ in st_.value.elts for y_ in ast.walk(e_) if isinstance(y_, ast.Attribute)) and \
                        all(isinstance(z_, (ast.Attribute, ast.Constant)) for e_ in st_.value.elts for z_ in e_.elts):
                    mod_tables[st_.targets[0].id] = st_.value
            for fd in [n for n in ast.walk(tree) if isinstance(n, ast.FunctionDef)]:
                # local tables: a name assigned once, a literal tuple / list of tuples, only ever iterated
                tables.clear()
                sto = _stores(fd.body)
                params_ = {a_.arg for a_ in ast.walk(fd.args) if isinstance(a_, ast.arg)}
                for nm_, v_ in mod_tables.items():
                    if nm_ not in sto and nm_ not in params_:
                        tables[nm_] = v_
                for n in _walk_no_defs(fd.body):
                    if isinstance(n, ast.Assign) and len(n.targets) == 1 and isinstance(n.targets[0], ast.Name) and sto.get(n.targets[0].id) == 1 and \
                            isinstance(n.value, (ast.Tuple, ast.List)) and n.value.elts and all(isinstance(e_, (ast.Tuple, ast.List)) for e_ in n.value.elts):
                        nm_ = n.targets[0].id
                        loads = [x for x in _walk_no_defs(fd.body) if isinstance(x, ast.Name) and x.id == nm_ and isinstance(x.ctx, ast.Load)]
                        iters = [x for x in _walk_no_defs(fd.body) if isinstance(x, ast.For) and isinstance(x.iter, ast.Name) and x.iter.id == nm_]
                        if loads and len(loads) == len(iters):
                            tables[nm_] = n.value
                fd.body = unroll(fd.body)
                if tables:
                    fd.body = [st for st in fd.body if not (isinstance(st, ast.Assign) and isinstance(st.targets[0], ast.Name) and st.targets[0].id in tables and
                                                           not any(isinstance(x, ast.Name) and x.id == st.targets[0].id and isinstance(x.ctx, ast.Load)
                                                                   for x in ast.walk(fd)))] or fd.body
                _groups_desugar(fd)
                _method_choice(fd)
                _copy_in_copy_out(fd)
                _extend_as_loop(fd)
                _get_or_create(fd)
                _next_over_table(fd, self.log)
                _return_accumulator(fd, self.log)
                _genexp_loop(fd, self.log)
                _sort_then_use(fd, self.log)
                _filter_then_loop(fd)
                _search_loop_unroll(fd, self.log)
                _fallback_split(fd, self.log)
                _guard_return(fd, self.log)
                _thread_flag(fd, self.log)
                _param_copy(fd, self.log)
                _append_temp(fd, self.log)
                _block_temp_rename(fd, self.log)
                _const_str_locals(fd, self.log)
                _scalarise_list_local(fd, self.log)
                _hoisted_locals(fd, self.log)
                _block_locals(fd, self.log)
                _single_use_temp(fd, self.log)
            F().visit(tree)
            _drop_pass(tree)

    # ------------------------------------------------------------------------------------------------ 4. pieces collected in a list and joined
    def join_form(self):
        """`L = []; L.append(e) ...; ''.join(L)`  ==  `L = ''; L += e ...; L` when L is used for nothing else."""
        for tree in self.trees.values():
            for fd in [n for n in ast.walk(tree) if isinstance(n, ast.FunctionDef)]:
                inits = {}
                for n in _walk_no_defs(fd.body):
                    if isinstance(n, ast.Assign) and len(n.targets) == 1 and isinstance(n.targets[0], ast.Name) and isinstance(n.value, ast.List) and not n.value.elts:
                        inits.setdefault(n.targets[0].id, []).append(n)
                for L, ini in inits.items():
                    if len(ini) != 1:
                        continue
                    loads = [n for n in _walk_no_defs(fd.body) if isinstance(n, ast.Name) and n.id == L]
                    ok_uses = set()
                    joins, appends, extends, augs = [], [], [], []
                    for n in _walk_no_defs(fd.body):
                        if isinstance(n, ast.Call) and isinstance(n.func, ast.Attribute) and n.func.attr == 'join' and isinstance(n.func.value, ast.Constant) and \
                                n.func.value.value == '' and len(n.args) == 1 and isinstance(n.args[0], ast.Name) and n.args[0].id == L:
                            joins.append(n)
                            ok_uses.add(id(n.args[0]))
                        if isinstance(n, ast.Expr) and isinstance(n.value, ast.Call) and isinstance(n.value.func, ast.Attribute) and \
                                isinstance(n.value.func.value, ast.Name) and n.value.func.value.id == L and len(n.value.args) == 1 and not n.value.keywords:
                            if n.value.func.attr == 'append':
                                appends.append(n)
                                ok_uses.add(id(n.value.func.value))
                            elif n.value.func.attr == 'extend' and isinstance(n.value.args[0], (ast.List, ast.Tuple, ast.GeneratorExp, ast.ListComp)):
                                a0 = n.value.args[0]
                                if isinstance(a0, (ast.GeneratorExp, ast.ListComp)) and len(a0.generators) != 1:
                                    continue
                                extends.append(n)
                                ok_uses.add(id(n.value.func.value))
                        if isinstance(n, ast.AugAssign) and isinstance(n.target, ast.Name) and n.target.id == L and isinstance(n.op, ast.Add) and \
                                isinstance(n.value, (ast.List, ast.Tuple)):
                            augs.append(n)
                            ok_uses.add(id(n.target))
                    ok_uses.add(id(ini[0].targets[0]))
                    if not joins or any(id(n) not in ok_uses for n in loads):
                        continue
                    if any(L in {x.id for x in ast.walk(e) if isinstance(x, ast.Name)} for a in appends for e in a.value.args):
                        continue
                    ini[0].value = ast.copy_location(ast.Constant(value=''), ini[0].value)
                    repl = {}
                    for a in appends:
                        repl[id(a)] = [ast.copy_location(ast.AugAssign(target=ast.Name(id=L, ctx=ast.Store()), op=ast.Add(), value=a.value.args[0]), a)]
                    for a in augs:
                        repl[id(a)] = [ast.copy_location(ast.AugAssign(target=ast.Name(id=L, ctx=ast.Store()), op=ast.Add(), value=e), a) for e in a.value.elts]
                    for a in extends:
                        a0 = a.value.args[0]
                        if isinstance(a0, (ast.List, ast.Tuple)):
                            repl[id(a)] = [ast.copy_location(ast.AugAssign(target=ast.Name(id=L, ctx=ast.Store()), op=ast.Add(), value=e), a) for e in a0.elts]
                        else:
                            g = a0.generators[0]
                            inner = [ast.copy_location(ast.AugAssign(target=ast.Name(id=L, ctx=ast.Store()), op=ast.Add(), value=a0.elt), a)]
                            for c in reversed(g.ifs):
                                inner = [ast.copy_location(ast.If(test=c, body=inner, orelse=[]), a)]
                            repl[id(a)] = [ast.copy_location(ast.For(target=g.target, iter=g.iter, body=inner, orelse=[], type_comment=None), a)]

                    def rewrite(stmts):
                        out = []
                        for st in stmts:
                            if id(st) in repl:
                                out.extend(repl[id(st)])
                                continue
                            for fld in ('body', 'orelse', 'finalbody'):
                                Ls = getattr(st, fld, None)
                                if isinstance(Ls, list) and Ls and isinstance(Ls[0], ast.stmt) and not isinstance(st, (ast.FunctionDef, ast.ClassDef)):
                                    setattr(st, fld, rewrite(Ls))
                            if isinstance(st, ast.Try):
                                for h in st.handlers:
                                    h.body = rewrite(h.body)
                            out.append(st)
                        return out
                    fd.body = rewrite(fd.body)
                    jids = {id(j) for j in joins}

                    class J(ast.NodeTransformer):
                        def visit_Call(self, n):
                            self.generic_visit(n)
                            if id(n) in jids:
                                return ast.copy_location(ast.Name(id=L, ctx=ast.Load()), n)
                            return n

                        def visit_FunctionDef(self, n):
                            return n if n is not fd else self.generic_visit(n)
                    J().visit(fd)
                    ast.fix_missing_locations(fd)
                    self.log.append('pieces list %s of %s written as a string accumulator' % (L, fd.name))

    def run(self):
        self.renames()
        self.inline()
        self.unbound_calls()
        self.join_form()
        n_before = len(self.log)
        self.simplify()
        if len(self.log) != n_before:        # a rewrite (an unrolled loop, a constant written out) may have uncovered literal forms: once more
            self.simplify()
        # the normal forms may have uncovered further helper calls (a helper bound to a local first: `h = __class__._h; ... h(x)`): one more round
        n_before = len(self.log)
        self.inline()
        if len(self.log) != n_before:
            self.simplify()
        for tree in self.trees.values():
            ast.fix_missing_locations(tree)
        return self.log


def _all_paths_end(node):
    """an if/else whose every branch ends in return / raise"""
    def ends(stmts):
        if not stmts:
            return False
        last = stmts[-1]
        if isinstance(last, (ast.Return, ast.Raise)):
            return True
        if isinstance(last, ast.If):
            return ends(last.body) and ends(last.orelse)
        return False
    return ends(node.body) and ends(node.orelse)


def _drop_pass(tree):
    for node in ast.walk(tree):
        for fld in ('body', 'orelse', 'finalbody'):
            L = getattr(node, fld, None)
            if isinstance(L, list) and L and all(isinstance(x, ast.stmt) for x in L):
                kept = [x for x in L if not isinstance(x, ast.Pass)]
                if kept and len(kept) != len(L):
                    setattr(node, fld, kept)


def _group_expr(e):
    """the match variable m if e is m.group(<constant>) of one m, possibly or-ed with constant defaults; else None"""
    ms = set()

    def ok(x):
        if isinstance(x, ast.Constant):
            return True
        if isinstance(x, ast.Call) and isinstance(x.func, ast.Attribute) and x.func.attr == 'group' and isinstance(x.func.value, ast.Name) and \
                len(x.args) == 1 and isinstance(x.args[0], ast.Constant) and not x.keywords:
            ms.add(x.func.value.id)
            return True
        if isinstance(x, ast.BoolOp) and isinstance(x.op, ast.Or):
            return all(ok(v) for v in x.values)          # `m.group(1) or ' '`: a group with its default
        return False             # (a truth value computed from a group -- `not g or g == '+'` -- is a flag with a name of its own)
    if ok(e) and len(ms) == 1:
        return next(iter(ms))
    return None


def _groups_desugar(fd):
    """`a, b, c = m.groups()` with m a regex match object: every later read of a / b / c is m.group(1) / (2) / (3)
    (when a, b, c are assigned nowhere else and m is not rebound in between -- checked per enclosing block)."""
    def walk_blocks(stmts):
        i = 0
        while i < len(stmts):
            st = stmts[i]
            for fld in ('body', 'orelse', 'finalbody'):
                L = getattr(st, fld, None)
                if isinstance(L, list) and L and isinstance(L[0], ast.stmt) and not isinstance(st, (ast.FunctionDef, ast.ClassDef)):
                    walk_blocks(L)
            if isinstance(st, ast.Assign) and len(st.targets) == 1 and isinstance(st.targets[0], ast.Tuple) and isinstance(st.value, ast.Call) and \
                    isinstance(st.value.func, ast.Attribute) and st.value.func.attr == 'groups' and not st.value.args and isinstance(st.value.func.value, ast.Name) and \
                    all(isinstance(x, ast.Name) for x in st.targets[0].elts):
                mv = st.value.func.value.id
                names = [x.id for x in st.targets[0].elts]
                rest = stmts[i + 1:]
                sto = _stores(rest)
                inside_ = {id(y_) for x_ in rest for y_ in ast.walk(x_)}
                all_in_rest = all(id(x_) in inside_ for x_ in _walk_no_defs(fd.body)
                                  if isinstance(x_, ast.Name) and x_.id in names and isinstance(x_.ctx, ast.Load))
                if mv not in sto and not any(n_ in sto for n_ in names) and all_in_rest and _stores(fd.body).get(mv, 0) <= 1 and \
                        all(_stores(fd.body).get(n_, 0) == 1 for n_ in names):
                    env = {n_: ast.Call(func=ast.Attribute(value=ast.Name(id=mv, ctx=ast.Load()), attr='group', ctx=ast.Load()),
                                        args=[ast.Constant(value=k_ + 1)], keywords=[]) for k_, n_ in enumerate(names)}
                    for j in range(i + 1, len(stmts)):
                        stmts[j] = _Subst(env).visit(stmts[j])
                        ast.fix_missing_locations(stmts[j])
                    del stmts[i]
                    continue
                # otherwise: one binding per group (the unpacking succeeds only when the pattern has exactly that many groups)
                stmts[i:i + 1] = [ast.copy_location(ast.Assign(targets=[ast.Name(id=n_, ctx=ast.Store())], value=ast.Call(
                    func=ast.Attribute(value=ast.Name(id=mv, ctx=ast.Load()), attr='group', ctx=ast.Load()), args=[ast.Constant(value=k_ + 1)], keywords=[]),
                    type_comment=None), st) for k_, n_ in enumerate(names)]
                for x_ in stmts[i:i + len(names)]:
                    ast.fix_missing_locations(x_)
                continue
            if isinstance(st, ast.Assign) and len(st.targets) == 1 and isinstance(st.targets[0], ast.Tuple) and isinstance(st.value, ast.Call) and \
                    isinstance(st.value.func, ast.Attribute) and st.value.func.attr == 'groups' and not st.value.args and isinstance(st.value.func.value, ast.Name) and \
                    sum(1 for x in st.targets[0].elts if isinstance(x, ast.Starred)) == 1 and \
                    all(isinstance(x, ast.Name) or (isinstance(x, ast.Starred) and isinstance(x.value, ast.Name)) for x in st.targets[0].elts):
                # `a, *rest = m.groups()` with the pattern of m a constant in sight: the number of groups is known
                mv = st.value.func.value.id
                ngroups = None
                for prev in reversed(stmts[:i]):
                    if isinstance(prev, ast.Assign) and len(prev.targets) == 1 and isinstance(prev.targets[0], ast.Name) and prev.targets[0].id == mv:
                        c_ = prev.value
                        if isinstance(c_, ast.Call) and isinstance(c_.func, ast.Attribute) and c_.func.attr in ('search', 'match', 'fullmatch') and \
                                isinstance(c_.func.value, ast.Name) and c_.func.value.id == 're' and c_.args and isinstance(c_.args[0], ast.Constant) and \
                                isinstance(c_.args[0].value, str):
                            try:
                                import re as _re
                                ngroups = _re.compile(c_.args[0].value).groups
                            except Exception:
                                ngroups = None
                        break
                    if any(isinstance(x, ast.Name) and x.id == mv and isinstance(x.ctx, ast.Store) for x in ast.walk(prev)):
                        break
                # the match may be bound in the enclosing block: `m = re.search(..); if m: a, *rest = m.groups()`
                if ngroups is None and _stores(fd.body).get(mv, 0) >= 1:
                    pats = set()
                    for x in _walk_no_defs(fd.body):
                        if isinstance(x, ast.Assign) and len(x.targets) == 1 and isinstance(x.targets[0], ast.Name) and x.targets[0].id == mv:
                            c_ = x.value
                            if isinstance(c_, ast.Call) and isinstance(c_.func, ast.Attribute) and c_.func.attr in ('search', 'match', 'fullmatch') and \
                                    isinstance(c_.func.value, ast.Name) and c_.func.value.id == 're' and c_.args and isinstance(c_.args[0], ast.Constant) and \
                                    isinstance(c_.args[0].value, str):
                                try:
                                    import re as _re
                                    pats.add(_re.compile(c_.args[0].value).groups)
                                except Exception:
                                    pats.add(None)
                            else:
                                pats.add(None)
                    # several patterns bound to the same name: decided only by position (the nearest binding before this statement in program order)
                    if len(pats) == 1 and None not in pats:
                        ngroups = pats.pop()
                    elif None not in pats and pats:
                        nodes_ = list(_walk_no_defs(fd.body))
                        pos_ = {id(x): k for k, x in enumerate(nodes_)}
                        best = None
                        for x in nodes_:
                            if isinstance(x, ast.Assign) and len(x.targets) == 1 and isinstance(x.targets[0], ast.Name) and x.targets[0].id == mv and \
                                    pos_[id(x)] < pos_.get(id(st), -1):
                                best = x
                        if best is not None and not any(isinstance(l_, (ast.For, ast.While)) for l_ in nodes_ if any(y is st for y in ast.walk(l_))):
                            import re as _re
                            ngroups = _re.compile(best.value.args[0].value).groups
                elts = st.targets[0].elts
                k_star = next(k for k, x in enumerate(elts) if isinstance(x, ast.Starred))
                if ngroups is not None and ngroups >= len(elts) - 1 and ngroups <= 12:
                    def grp(k):
                        return ast.Call(func=ast.Attribute(value=ast.Name(id=mv, ctx=ast.Load()), attr='group', ctx=ast.Load()), args=[ast.Constant(value=k)], keywords=[])
                    new_st = []
                    n_after = len(elts) - 1 - k_star
                    for k, x in enumerate(elts):
                        if k < k_star:
                            new_st.append(ast.Assign(targets=[ast.Name(id=x.id, ctx=ast.Store())], value=grp(k + 1), type_comment=None))
                        elif k == k_star:
                            new_st.append(ast.Assign(targets=[ast.Name(id=x.value.id, ctx=ast.Store())],
                                                     value=ast.List(elts=[grp(g) for g in range(k_star + 1, ngroups - n_after + 1)], ctx=ast.Load()), type_comment=None))
                        else:
                            new_st.append(ast.Assign(targets=[ast.Name(id=x.id, ctx=ast.Store())], value=grp(ngroups - (len(elts) - 1 - k)), type_comment=None))
                    for x_ in new_st:
                        ast.copy_location(x_, st)
                        ast.fix_missing_locations(x_)
                    stmts[i:i + 1] = new_st
                    continue
            if isinstance(st, ast.Assign) and len(st.targets) == 1 and isinstance(st.targets[0], ast.Name) and _group_expr(st.value) is not None:
                # x = m.group(k) (or `m.group(k) or ' '`, `not m.group(k)` ...): a plain name for an expression over the groups of one match
                mv = _group_expr(st.value)
                nm = st.targets[0].id
                rest = stmts[i + 1:]
                sto = _stores(rest)
                whole = _stores(fd.body)
                # every assignment of this name in the function is such a group copy, and every read of it follows one in the same block
                def covered():
                    cands = []      # (rest statements) of every `nm = <m>.group(k)` in the function
                    def scan(L):
                        for idx_, x_ in enumerate(L):
                            if isinstance(x_, ast.Assign) and len(x_.targets) == 1 and isinstance(x_.targets[0], ast.Name) and x_.targets[0].id == nm:
                                v_ = x_.value
                                if _group_expr(v_) is None:
                                    return False
                                cands.append(L[idx_ + 1:])
                            for fld_ in ('body', 'orelse', 'finalbody'):
                                L2 = getattr(x_, fld_, None)
                                if isinstance(L2, list) and L2 and isinstance(L2[0], ast.stmt) and not isinstance(x_, (ast.FunctionDef, ast.ClassDef)):
                                    if scan(L2) is False:
                                        return False
                        return True
                    if scan(fd.body) is False:
                        return False
                    n_stores = sum(1 for x_ in _walk_no_defs(fd.body) if isinstance(x_, ast.Name) and x_.id == nm and isinstance(x_.ctx, (ast.Store, ast.Del)))
                    if n_stores != len(cands):
                        return False
                    inside = {id(y_) for r_ in cands for x_ in r_ for y_ in ast.walk(x_)}
                    return all(id(x_) in inside for x_ in _walk_no_defs(fd.body) if isinstance(x_, ast.Name) and x_.id == nm and isinstance(x_.ctx, ast.Load))
                inside_ = {id(y_) for x_ in rest for y_ in ast.walk(x_)}
                all_in_rest = all(id(x_) in inside_ for x_ in _walk_no_defs(fd.body) if isinstance(x_, ast.Name) and x_.id == nm and isinstance(x_.ctx, ast.Load))
                if mv not in sto and nm not in sto and ((whole.get(nm, 0) == 1 and all_in_rest) or covered()):
                    env = {nm: st.value}
                    for j in range(i + 1, len(stmts)):
                        stmts[j] = _Subst(env).visit(stmts[j])
                        ast.fix_missing_locations(stmts[j])
                    del stmts[i]
                    continue
            i += 1
    walk_blocks(fd.body)


def _get_or_create(fd):
    """`x = D.get(k)` followed by `if x is None: x = D[k] = V` (or the two stores as separate statements) is the look-up-or-insert
    idiom: written as `if k not in D: D[k] = V` followed by `x = D[k]`, the form the repository uses."""
    def dump(e):
        return ast.dump(e)

    def rewrite(stmts):
        i = 0
        while i < len(stmts):
            st = stmts[i]
            for fld in ('body', 'orelse', 'finalbody'):
                L = getattr(st, fld, None)
                if isinstance(L, list) and L and isinstance(L[0], ast.stmt) and not isinstance(st, (ast.FunctionDef, ast.ClassDef)):
                    rewrite(L)
            if isinstance(st, ast.Try):
                for h in st.handlers:
                    rewrite(h.body)
            nxt = stmts[i + 1] if i + 1 < len(stmts) else None
            if isinstance(st, ast.Assign) and len(st.targets) == 1 and isinstance(st.targets[0], ast.Name) and isinstance(st.value, ast.Call) and \
                    isinstance(st.value.func, ast.Attribute) and st.value.func.attr == 'get' and not st.value.keywords and \
                    (len(st.value.args) == 1 or (len(st.value.args) == 2 and isinstance(st.value.args[1], ast.Constant) and st.value.args[1].value is None)) and \
                    isinstance(nxt, ast.If) and not nxt.orelse and isinstance(nxt.test, ast.Compare) and len(nxt.test.ops) == 1 and isinstance(nxt.test.ops[0], ast.Is) and \
                    isinstance(nxt.test.left, ast.Name) and nxt.test.left.id == st.targets[0].id and isinstance(nxt.test.comparators[0], ast.Constant) and \
                    nxt.test.comparators[0].value is None:
                x, D, k = st.targets[0].id, st.value.func.value, st.value.args[0]
                item = ast.Subscript(value=D, slice=k, ctx=ast.Store())
                V = None
                b = nxt.body
                if len(b) == 1 and isinstance(b[0], ast.Assign) and len(b[0].targets) == 2:
                    names = [t for t in b[0].targets if isinstance(t, ast.Name) and t.id == x]
                    subs = [t for t in b[0].targets if isinstance(t, ast.Subscript) and dump(t.value) == dump(D) and dump(t.slice) == dump(k)]
                    if len(names) == 1 and len(subs) == 1:
                        V = b[0].value
                elif len(b) == 2 and all(isinstance(y, ast.Assign) and len(y.targets) == 1 for y in b):
                    t0, t1 = b[0].targets[0], b[1].targets[0]
                    if isinstance(t0, ast.Name) and t0.id == x and isinstance(t1, ast.Subscript) and dump(t1.value) == dump(D) and dump(t1.slice) == dump(k) and \
                            isinstance(b[1].value, ast.Name) and b[1].value.id == x:
                        V = b[0].value
                    elif isinstance(t0, ast.Subscript) and dump(t0.value) == dump(D) and dump(t0.slice) == dump(k) and isinstance(t1, ast.Name) and t1.id == x and \
                            dump(b[1].value) == dump(ast.Subscript(value=D, slice=k, ctx=ast.Load())):
                        V = b[0].value
                if V is not None and not any(isinstance(n, ast.Name) and n.id == x for n in ast.walk(V)):
                    guard = ast.copy_location(ast.If(test=ast.Compare(left=astcopy(k), ops=[ast.NotIn()], comparators=[astcopy(D)]),
                                                     body=[ast.copy_location(ast.Assign(targets=[item], value=V, type_comment=None), nxt)], orelse=[]), nxt)
                    read = ast.copy_location(ast.Assign(targets=[ast.Name(id=x, ctx=ast.Store())],
                                                        value=ast.Subscript(value=astcopy(D), slice=astcopy(k), ctx=ast.Load()), type_comment=None), st)
                    ast.fix_missing_locations(guard)
                    ast.fix_missing_locations(read)
                    stmts[i:i + 2] = [guard, read]
                    i += 2
                    continue
            i += 1
    rewrite(fd.body)


def _filter_then_loop(fd):
    """`L = [x for x in IT if C]` followed (next statement) by `for y in L: BODY`, L used nowhere else, IT a materialised sequence
    (sorted / list / tuple / reversed / range call, or a plain name) and C reading nothing BODY binds: the same as `for y in IT: if C[y/x]: BODY`."""
    def rewrite(stmts):
        i = 0
        while i < len(stmts):
            st = stmts[i]
            for fld in ('body', 'orelse', 'finalbody'):
                L = getattr(st, fld, None)
                if isinstance(L, list) and L and isinstance(L[0], ast.stmt) and not isinstance(st, (ast.FunctionDef, ast.ClassDef)):
                    rewrite(L)
            nxt = stmts[i + 1] if i + 1 < len(stmts) else None
            if isinstance(st, ast.Assign) and len(st.targets) == 1 and isinstance(st.targets[0], ast.Name) and isinstance(st.value, ast.ListComp) and \
                    len(st.value.generators) == 1 and isinstance(st.value.generators[0].target, ast.Name) and isinstance(st.value.elt, ast.Name) and \
                    st.value.elt.id == st.value.generators[0].target.id and st.value.generators[0].ifs and \
                    isinstance(nxt, ast.For) and not nxt.orelse and isinstance(nxt.target, ast.Name) and (
                        (isinstance(nxt.iter, ast.Name) and nxt.iter.id == st.targets[0].id) or
                        # the filtered list wrapped in an order-only call: filtering commutes with sorting / reversing
                        (isinstance(nxt.iter, ast.Call) and isinstance(nxt.iter.func, ast.Name) and nxt.iter.func.id in ('sorted', 'reversed', 'list', 'tuple') and
                         len(nxt.iter.args) == 1 and isinstance(nxt.iter.args[0], ast.Name) and nxt.iter.args[0].id == st.targets[0].id and
                         all(k.arg == 'reverse' and isinstance(k.value, ast.Constant) for k in nxt.iter.keywords))):
                Lname = st.targets[0].id
                g = st.value.generators[0]
                uses = [n for n in _walk_no_defs(fd.body) if isinstance(n, ast.Name) and n.id == Lname]
                wrapped = isinstance(nxt.iter, ast.Call)
                it_ok = isinstance(g.iter, ast.Name) or (isinstance(g.iter, ast.Call) and isinstance(g.iter.func, ast.Name) and
                                                           g.iter.func.id in ('sorted', 'list', 'tuple', 'reversed', 'range')) or \
                    (wrapped and nxt.iter.func.id in ('sorted', 'list', 'tuple') and isinstance(g.iter, (ast.Name, ast.Attribute)))
                bound = set(_stores(nxt.body))
                reads = {n.id for c in g.ifs for n in ast.walk(c) if isinstance(n, ast.Name)}
                jumps_else = False
                if len(uses) == 2 and it_ok and not (reads & bound) and not jumps_else:
                    conds = [_Subst({g.target.id: ast.Name(id=nxt.target.id, ctx=ast.Load())}).visit(astcopy(c)) for c in g.ifs]
                    test = conds[0] if len(conds) == 1 else ast.BoolOp(op=ast.And(), values=conds)
                    inner = ast.copy_location(ast.If(test=test, body=nxt.body, orelse=[]), nxt)
                    new_iter = g.iter
                    if wrapped:
                        new_iter = ast.copy_location(ast.Call(func=nxt.iter.func, args=[g.iter], keywords=nxt.iter.keywords), nxt.iter)
                    loop = ast.copy_location(ast.For(target=nxt.target, iter=new_iter, body=[inner], orelse=[], type_comment=None), nxt)
                    ast.fix_missing_locations(loop)
                    stmts[i:i + 2] = [loop]
                    continue
            i += 1
    rewrite(fd.body)


def _copy_in_copy_out(fd):
    """`a = b` ... `b = a` in one statement list, b untouched in between and a used nowhere else in the function (what inlining a helper
    that re-binds its own parameter leaves behind): the statements in between with a written as b, without the two copies."""
    def occurrences(nodes, name):
        return [n for st in nodes for n in _walk_no_defs([st]) if isinstance(n, ast.Name) and n.id == name]

    def rewrite(stmts):
        changed = True
        while changed:
            changed = False
            for i, st in enumerate(stmts):
                if not (isinstance(st, ast.Assign) and len(st.targets) == 1 and isinstance(st.targets[0], ast.Name) and isinstance(st.value, ast.Name)):
                    continue
                a_, b_ = st.targets[0].id, st.value.id
                if a_ == b_:
                    continue
                for j in range(i + 1, len(stmts)):
                    sj = stmts[j]
                    if isinstance(sj, ast.Assign) and len(sj.targets) == 1 and isinstance(sj.targets[0], ast.Name) and sj.targets[0].id == b_ and \
                            isinstance(sj.value, ast.Name) and sj.value.id == a_:
                        mid = stmts[i + 1:j]
                        if occurrences(mid, b_):
                            break
                        total = len(occurrences(fd.body, a_))
                        inside = len(occurrences(stmts[i:j + 1], a_))
                        if total != inside:
                            break
                        stmts[i:j + 1] = [_Rename({a_: b_}).visit(x) for x in mid]
                        changed = True
                        break
                if changed:
                    break
        for st in stmts:
            for fld in ('body', 'orelse', 'finalbody'):
                L = getattr(st, fld, None)
                if isinstance(L, list) and L and isinstance(L[0], ast.stmt) and not isinstance(st, (ast.FunctionDef, ast.ClassDef)):
                    rewrite(L)
            if isinstance(st, ast.Try):
                for h in st.handlers:
                    rewrite(h.body)
    rewrite(fd.body)


def _extend_as_loop(fd):
    """`L.extend(e for x in IT if C)` / `L += [e for x in IT if C]` as statements (L a plain name that the comprehension does not read):
    `for x in IT: if C: L.append(e)`."""
    def conv(st):
        comp, L = None, None
        if isinstance(st, ast.Expr) and isinstance(st.value, ast.Call) and isinstance(st.value.func, ast.Attribute) and st.value.func.attr == 'extend' and \
                isinstance(st.value.func.value, ast.Name) and len(st.value.args) == 1 and not st.value.keywords and \
                isinstance(st.value.args[0], (ast.ListComp, ast.GeneratorExp)):
            comp, L = st.value.args[0], st.value.func.value.id
        elif isinstance(st, ast.AugAssign) and isinstance(st.op, ast.Add) and isinstance(st.target, ast.Name) and isinstance(st.value, ast.ListComp):
            comp, L = st.value, st.target.id
        # `D.update((k, v) for ... )` / `D.update({k: v for ...})` as a statement: `for ...: D[k] = v`  (D a name or an attribute of a name)
        upd = None
        if isinstance(st, ast.Expr) and isinstance(st.value, ast.Call) and isinstance(st.value.func, ast.Attribute) and st.value.func.attr == 'update' and \
                len(st.value.args) == 1 and not st.value.keywords and isinstance(st.value.func.value, (ast.Name, ast.Attribute)):
            a0 = st.value.args[0]
            if isinstance(a0, (ast.GeneratorExp, ast.ListComp)) and isinstance(a0.elt, ast.Tuple) and len(a0.elt.elts) == 2:
                upd = (a0, a0.elt.elts[0], a0.elt.elts[1])
            elif isinstance(a0, ast.DictComp):
                upd = (a0, a0.key, a0.value)
        if upd is not None and not any(g.is_async for g in upd[0].generators):
            D = st.value.func.value
            dn = ast.unparse(D)
            if not any(ast.unparse(n) == dn for n in ast.walk(upd[0]) if isinstance(n, (ast.Name, ast.Attribute))):
                body = [ast.Assign(targets=[ast.Subscript(value=D, slice=upd[1], ctx=ast.Store())], value=upd[2], type_comment=None)]
                for g in reversed(upd[0].generators):
                    if g.ifs:
                        test = g.ifs[0] if len(g.ifs) == 1 else ast.BoolOp(op=ast.And(), values=list(g.ifs))
                        body = [ast.If(test=test, body=body, orelse=[])]
                    body = [ast.For(target=g.target, iter=g.iter, body=body, orelse=[], type_comment=None)]
                loop = ast.copy_location(body[0], st)
                ast.fix_missing_locations(loop)
                return loop
        if comp is None or any(isinstance(n, ast.Name) and n.id == L for n in ast.walk(comp)) or any(g.is_async for g in comp.generators):
            return None
        body = [ast.Expr(value=ast.Call(func=ast.Attribute(value=ast.Name(id=L, ctx=ast.Load()), attr='append', ctx=ast.Load()), args=[comp.elt], keywords=[]))]
        for g in reversed(comp.generators):
            if g.ifs:
                test = g.ifs[0] if len(g.ifs) == 1 else ast.BoolOp(op=ast.And(), values=list(g.ifs))
                body = [ast.If(test=test, body=body, orelse=[])]
            body = [ast.For(target=g.target, iter=g.iter, body=body, orelse=[], type_comment=None)]
        loop = ast.copy_location(body[0], st)
        ast.fix_missing_locations(loop)
        return loop

    def rewrite(stmts):
        for i, st in enumerate(stmts):
            for fld in ('body', 'orelse', 'finalbody'):
                L = getattr(st, fld, None)
                if isinstance(L, list) and L and isinstance(L[0], ast.stmt) and not isinstance(st, (ast.FunctionDef, ast.ClassDef)):
                    rewrite(L)
            if isinstance(st, ast.Try):
                for h in st.handlers:
                    rewrite(h.body)
            new = conv(st)
            if new is not None:
                # the comprehension's variables are local to it: keep the rewrite only when they do not clash with names of the function
                names = {n.id for g in (st.value.args[0] if isinstance(st, ast.Expr) else st.value).generators for n in ast.walk(g.target) if isinstance(n, ast.Name)}
                # the comprehension's variables are its own: one that is also a name of the function gets a fresh name in the loop
                ren = {}
                taken = {n.id for n in ast.walk(fd) if isinstance(n, ast.Name)} | {a.arg for a in fd.args.args + fd.args.kwonlyargs}
                for nm in names:
                    cnt_all = sum(1 for n in _walk_no_defs(fd.body) if isinstance(n, ast.Name) and n.id == nm)
                    cnt_in = sum(1 for n in ast.walk(st) if isinstance(n, ast.Name) and n.id == nm)
                    if cnt_all != cnt_in or nm in {a.arg for a in fd.args.args + fd.args.kwonlyargs}:
                        k_ = 1
                        while '%s_%d' % (nm, k_) in taken:
                            k_ += 1
                        ren[nm] = '%s_%d' % (nm, k_)
                        taken.add(ren[nm])
                if ren:
                    new = _Rename(ren).visit(new)
                stmts[i] = new
    rewrite(fd.body)


def _single_use_temp(fd, log=None):
    """`x = <call>` immediately followed by a simple statement that reads x exactly once -- x bound and read nowhere else, the read not
    inside a lambda / comprehension element / loop, and nothing with an effect evaluated before it in that statement: the call written
    where x is read (`t = self.f(i); return sep.join(g(s) for s in t)` reads like `return sep.join(g(s) for s in self.f(i))`)."""
    def rewrite(stmts):
        i = 0
        while i + 1 < len(stmts):
            st, nxt = stmts[i], stmts[i + 1]
            ok = isinstance(st, ast.Assign) and len(st.targets) == 1 and isinstance(st.targets[0], ast.Name) and isinstance(st.value, ast.Call) and \
                isinstance(nxt, (ast.Return, ast.Expr)) and nxt.value is not None
            if ok:
                x = st.targets[0].id
                occ = [n for n in _walk_no_defs(fd.body) if isinstance(n, ast.Name) and n.id == x]
                uses = [n for n in ast.walk(nxt) if isinstance(n, ast.Name) and n.id == x and isinstance(n.ctx, ast.Load)]
                if len(occ) == 2 and len(uses) == 1 and x not in {a.arg for a in fd.args.args + fd.args.kwonlyargs}:
                    use = uses[0]
                    # ancestors of the use inside nxt
                    parent = {}
                    for p_ in ast.walk(nxt):
                        for c_ in ast.iter_child_nodes(p_):
                            parent[id(c_)] = p_
                    anc, cur = set(), use
                    bad = False
                    while id(cur) in parent:
                        par = parent[id(cur)]
                        anc.add(id(par))
                        if isinstance(par, (ast.Lambda, ast.IfExp, ast.BoolOp)):
                            bad = True
                        if isinstance(par, (ast.ListComp, ast.SetComp, ast.GeneratorExp, ast.DictComp)):
                            # only the first iterable of a comprehension is evaluated exactly once
                            if not (par.generators and cur is par.generators[0]):
                                bad = True
                        if isinstance(par, ast.comprehension) and cur is not par.iter:
                            bad = True
                        cur = par
                    # what an enclosing comprehension evaluates after its first iterable (element, conditions, further generators) comes later
                    later = set()
                    for p_ in ast.walk(nxt):
                        if id(p_) in anc and isinstance(p_, (ast.ListComp, ast.SetComp, ast.GeneratorExp, ast.DictComp)):
                            parts_ = ([p_.key, p_.value] if isinstance(p_, ast.DictComp) else [p_.elt]) + list(p_.generators[0].ifs) + [p_.generators[0].target] + \
                                list(p_.generators[1:])
                            for q_ in parts_:
                                later |= {id(z_) for z_ in ast.walk(q_)}
                    before = [n for n in ast.walk(nxt) if isinstance(n, (ast.Call, ast.Await, ast.Yield, ast.YieldFrom, ast.NamedExpr)) and id(n) not in anc and
                              id(n) not in later and hasattr(n, 'lineno') and (n.lineno, n.col_offset) < (use.lineno, use.col_offset)]
                    # only a temporary that is iterated (the first iterable of a comprehension): a named call result that is returned, compared or
                    # passed on is an anchor the rules read, and stays
                    par0 = parent.get(id(use))
                    iterated = isinstance(par0, ast.comprehension) and par0.iter is use
                    if not bad and not before and iterated:
                        stmts[i + 1] = _Subst({x: st.value}).visit(nxt)
                        del stmts[i]
                        if log is not None:
                            log.append('# temporary %s of %s written where it is read' % (x, fd.name))
                        continue
            for fld in ('body', 'orelse', 'finalbody'):
                L = getattr(st, fld, None)
                if isinstance(L, list) and L and isinstance(L[0], ast.stmt) and not isinstance(st, (ast.FunctionDef, ast.ClassDef)):
                    rewrite(L)
            i += 1
        if stmts:
            st = stmts[-1]
            for fld in ('body', 'orelse', 'finalbody'):
                L = getattr(st, fld, None)
                if isinstance(L, list) and L and isinstance(L[0], ast.stmt) and not isinstance(st, (ast.FunctionDef, ast.ClassDef)):
                    rewrite(L)
    rewrite(fd.body)


def _guard_return(fd, log=None):
    """`if C: return v` ... `return v` at the top level of a function (v a plain name that the statements in between do not re-bind):
    the statements in between under `if not C:`, followed by the one `return v` -- the nested form the repository uses for
    "nothing to do" cases."""
    from .model import negate
    body = fd.body
    if len(body) < 3 or not (isinstance(body[-1], ast.Return) and isinstance(body[-1].value, ast.Name)):
        return
    v = body[-1].value.id
    for i in range(len(body) - 2, -1, -1):
        st = body[i]
        if isinstance(st, ast.If) and not st.orelse and len(st.body) == 1 and isinstance(st.body[0], ast.Return) and isinstance(st.body[0].value, ast.Name) and \
                st.body[0].value.id == v:
            mid = body[i + 1:-1]
            if not mid or v in _stores(mid):
                continue
            if any(isinstance(n, (ast.Return, ast.For, ast.While)) for n in _walk_no_defs(mid)):
                continue        # (a guard in front of a scan loop is left as it is: the scan rules read the function top-down)
            new = ast.copy_location(ast.If(test=negate(st.test), body=mid, orelse=[]), st)
            ast.fix_missing_locations(new)
            body[i:-1] = [new]
            if log is not None:
                log.append('# guard `if %s: return %s` of %s written as the nested form' % (ast.unparse(st.test), v, fd.name))
    fd.body = body


def _search_loop_unroll(fd, log=None):
    """`for a, b in <literal table of at most 8 rows>: m = f(a, ..); if m: break` followed by `if m: BODY` where BODY always returns or raises:
    one attempt per row, each with its own copy of BODY in which the row's values are written for a and b -- the layout of the
    repository's copy-pasted blocks (the table may be a local bound once to the literal and used for nothing else)."""
    def rewrite(stmts):
        i = 0
        while i + 1 < len(stmts):
            lp, G = stmts[i], stmts[i + 1]
            table = None
            if isinstance(lp, ast.For) and not lp.orelse and isinstance(lp.target, (ast.Tuple, ast.Name)) and isinstance(G, ast.If) and not G.orelse and \
                    isinstance(G.test, ast.Name) and _all_paths_end_list(G.body) and len(lp.body) == 2 and isinstance(lp.body[0], ast.Assign) and \
                    len(lp.body[0].targets) == 1 and isinstance(lp.body[0].targets[0], ast.Name) and lp.body[0].targets[0].id == G.test.id and \
                    isinstance(lp.body[1], ast.If) and not lp.body[1].orelse and isinstance(lp.body[1].test, ast.Name) and lp.body[1].test.id == G.test.id and \
                    len(lp.body[1].body) == 1 and isinstance(lp.body[1].body[0], ast.Break):
                it = lp.iter
                tdef = None
                if isinstance(it, ast.Name):
                    defs = [x for x in stmts[:i] if isinstance(x, ast.Assign) and len(x.targets) == 1 and isinstance(x.targets[0], ast.Name) and x.targets[0].id == it.id]
                    uses = [n for n in _walk_no_defs(fd.body) if isinstance(n, ast.Name) and n.id == it.id]
                    if len(defs) == 1 and len(uses) == 2 and isinstance(defs[0].value, (ast.Tuple, ast.List)):
                        tdef, it = defs[0], defs[0].value
                if isinstance(it, (ast.Tuple, ast.List)) and 1 <= len(it.elts) <= 8:
                    names = [x.id for x in lp.target.elts] if isinstance(lp.target, ast.Tuple) and all(isinstance(x, ast.Name) for x in lp.target.elts) else \
                        [lp.target.id] if isinstance(lp.target, ast.Name) else None
                    rows = []
                    for r in it.elts:
                        if isinstance(lp.target, ast.Tuple):
                            if not (isinstance(r, (ast.Tuple, ast.List)) and names and len(r.elts) == len(names)):
                                rows = None
                                break
                            rows.append(dict(zip(names, r.elts)))
                        else:
                            rows.append({names[0]: r} if names else None)
                    bound = set(_stores(G.body)) | set(_stores([lp.body[0]]))
                    if rows and names and not (set(names) & bound):
                        table = rows
            if table is not None:
                new = []
                for env in table:
                    new.append(_Subst(env).visit(astcopy(lp.body[0])))
                    new.append(ast.copy_location(ast.If(test=astcopy(G.test), body=[_Subst(env).visit(astcopy(b)) for b in G.body], orelse=[]), G))
                for n in new:
                    ast.fix_missing_locations(n)
                stmts[i:i + 2] = new
                if tdef is not None and tdef in stmts:
                    stmts.remove(tdef)
                if log is not None:
                    log.append('# search loop over %d rows in %s written as one block per row' % (len(table), fd.name))
                i = 0
                continue
            for fld in ('body', 'orelse', 'finalbody'):
                L = getattr(lp, fld, None)
                if isinstance(L, list) and L and isinstance(L[0], ast.stmt) and not isinstance(lp, (ast.FunctionDef, ast.ClassDef)):
                    rewrite(L)
            i += 1
    rewrite(fd.body)


def _fallback_split(fd, log=None):
    """`m = E1; [v = C]; if not m: m = E2; [v = D]` followed by `if m: BODY` where BODY always returns or raises: the common handling of
    a first attempt and its fallback.  Written as the two attempts one after the other, each with its own copy of BODY (in which a
    selector v bound to a plain name / attribute is replaced by what it stands for): the layout of the repository's copy-pasted blocks."""
    def plain(e):
        return isinstance(e, (ast.Name, ast.Constant)) or (isinstance(e, ast.Attribute) and plain(e.value))

    def names_of(st):
        return {n.id for n in ast.walk(st) if isinstance(n, ast.Name)}

    def rewrite(stmts):
        i = 0
        while i + 1 < len(stmts):
            F, G = stmts[i], stmts[i + 1]
            if isinstance(F, ast.If) and not F.orelse and isinstance(F.test, ast.UnaryOp) and isinstance(F.test.op, ast.Not) and isinstance(F.test.operand, ast.Name) and \
                    isinstance(G, ast.If) and not G.orelse and isinstance(G.test, ast.Name) and G.test.id == F.test.operand.id and _all_paths_end_list(G.body):
                mname = G.test.id
                # the first attempt: the nearest preceding assignment to m in this list, with only simple selector assignments in between
                j = i - 1
                sel1 = {}
                while j >= 0 and isinstance(stmts[j], ast.Assign) and len(stmts[j].targets) == 1 and isinstance(stmts[j].targets[0], ast.Name) and \
                        stmts[j].targets[0].id != mname and plain(stmts[j].value):
                    sel1.setdefault(stmts[j].targets[0].id, stmts[j].value)
                    j -= 1
                first = stmts[j] if j >= 0 else None
                # ... or just before the first attempt
                j2 = j - 1
                while first is not None and j2 >= 0 and isinstance(stmts[j2], ast.Assign) and len(stmts[j2].targets) == 1 and isinstance(stmts[j2].targets[0], ast.Name) and \
                        stmts[j2].targets[0].id != mname and plain(stmts[j2].value) and stmts[j2].targets[0].id not in names_of(first):
                    sel1.setdefault(stmts[j2].targets[0].id, stmts[j2].value)
                    j2 -= 1
                if isinstance(first, ast.Assign) and len(first.targets) == 1 and isinstance(first.targets[0], ast.Name) and first.targets[0].id == mname and \
                        any(isinstance(b, ast.Assign) and len(b.targets) == 1 and isinstance(b.targets[0], ast.Name) and b.targets[0].id == mname for b in F.body):
                    sel2 = {}
                    for b in F.body:
                        if isinstance(b, ast.Assign) and len(b.targets) == 1 and isinstance(b.targets[0], ast.Name) and b.targets[0].id != mname and plain(b.value):
                            sel2[b.targets[0].id] = b.value
                    bound = set(_stores(G.body))
                    s1 = {k: v for k, v in sel1.items() if k not in bound and k in sel2}
                    s2 = {k: v for k, v in sel2.items() if k in s1}
                    g1 = ast.copy_location(ast.If(test=G.test, body=[_Subst(s1).visit(astcopy(b)) for b in G.body], orelse=[]), G)
                    g2 = ast.copy_location(ast.If(test=astcopy(G.test), body=[_Subst(s2).visit(astcopy(b)) for b in G.body], orelse=[]), G)
                    ast.fix_missing_locations(g1)
                    ast.fix_missing_locations(g2)
                    stmts[i:i + 2] = [g1] + list(F.body) + [g2]
                    # a selector that is read nowhere any more: its bindings go
                    for k in s1:
                        if not any(isinstance(n, ast.Name) and n.id == k and isinstance(n.ctx, ast.Load) for n in ast.walk(fd)):
                            stmts[:] = [x for x in stmts if not (isinstance(x, ast.Assign) and len(x.targets) == 1 and isinstance(x.targets[0], ast.Name) and
                                                                 x.targets[0].id == k and plain(x.value))]
                    if log is not None:
                        log.append('# first attempt / fallback on %s in %s written as two blocks' % (mname, fd.name))
                    i = 0
                    continue
            for fld in ('body', 'orelse', 'finalbody'):
                L = getattr(F, fld, None)
                if isinstance(L, list) and L and isinstance(L[0], ast.stmt) and not isinstance(F, (ast.FunctionDef, ast.ClassDef)):
                    rewrite(L)
            i += 1
    rewrite(fd.body)


def _all_paths_end_list(stmts):
    if not stmts:
        return False
    last = stmts[-1]
    if isinstance(last, (ast.Return, ast.Raise)):
        return True
    if isinstance(last, ast.If) and last.orelse:
        return _all_paths_end_list(last.body) and _all_paths_end_list(last.orelse)
    return False


def _method_choice(fd):
    """`if c: f = obj.m1 else: f = obj.m2` ... `x = f(args)`  ->  `if c: x = obj.m1(args) else: x = obj.m2(args)`
    (a bound method chosen first and called once; also the single-assignment form `f = obj.m`)."""
    def walk_blocks(stmts):
        i = 0
        while i < len(stmts):
            st = stmts[i]
            for fld in ('body', 'orelse', 'finalbody'):
                L = getattr(st, fld, None)
                if isinstance(L, list) and L and isinstance(L[0], ast.stmt) and not isinstance(st, (ast.FunctionDef, ast.ClassDef)):
                    walk_blocks(L)
            name = alts = test = None
            if isinstance(st, ast.If) and len(st.body) == 1 and len(st.orelse) == 1 and all(
                    isinstance(x, ast.Assign) and len(x.targets) == 1 and isinstance(x.targets[0], ast.Name) and isinstance(x.value, ast.Attribute)
                    for x in (st.body[0], st.orelse[0])) and st.body[0].targets[0].id == st.orelse[0].targets[0].id:
                name, alts, test = st.body[0].targets[0].id, (st.body[0].value, st.orelse[0].value), st.test
            elif isinstance(st, ast.Assign) and len(st.targets) == 1 and isinstance(st.targets[0], ast.Name) and isinstance(st.value, ast.Attribute) and \
                    isinstance(st.value.value, (ast.Name, ast.Attribute)):
                name, alts = st.targets[0].id, (st.value,)
            if name is not None:
                whole_loads = [x for x in _walk_no_defs(fd.body) if isinstance(x, ast.Name) and x.id == name and isinstance(x.ctx, ast.Load)]
                stores = _stores(fd.body).get(name, 0)
                # the one use: a later statement of this block whose value is exactly the call f(...)
                j = None
                for k in range(i + 1, len(stmts)):
                    x = stmts[k]
                    v = x.value if isinstance(x, (ast.Assign, ast.Expr, ast.Return)) else None
                    if isinstance(v, ast.Call) and isinstance(v.func, ast.Name) and v.func.id == name:
                        j = k
                        break
                    if any(isinstance(y, ast.Name) and y.id == name for y in ast.walk(x)):
                        break
                test_names = {y.id for y in ast.walk(test) if isinstance(y, ast.Name)} if test is not None else set()
                between = stmts[i + 1:j] if j is not None else []
                if j is not None and len(whole_loads) == 1 and stores == len(alts) and not (test_names & set(_stores(between))):
                    use = stmts[j]
                    def with_(alt):
                        u = astcopy(use)
                        u.value.func = astcopy(alt)
                        return u
                    if test is None:
                        new = with_(alts[0])
                    else:
                        new = ast.copy_location(ast.If(test=test, body=[with_(alts[0])], orelse=[with_(alts[1])]), use)
                    ast.fix_missing_locations(new)
                    stmts[j] = new
                    del stmts[i]
                    continue
            i += 1
    walk_blocks(fd.body)

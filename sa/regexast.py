"""Regex ASTs via the stdlib's own parser (re._parser): group roles for the alignment and colour regexes."""
import re._parser as _sp
import re._constants as _c

MAXREPEAT = _c.MAXREPEAT


def parse(pattern):
    return _sp.parse(pattern)


def _items(sub):
    return list(sub)


def groups(pattern):
    """{group number: (role, detail)} plus the flat sequence of top-level events [('group', n) | ('lit', ch) | ...]."""
    tree = parse(pattern)
    roles = {}
    order = []

    def classify(sub):
        it = _items(sub)
        if len(it) == 1:
            op, av = it[0]
            if op is _c.MAX_REPEAT:
                lo, hi, inner = av
                inner = _items(inner)
                if len(inner) == 1:
                    iop, iav = inner[0]
                    if iop is _c.ANY and (lo, hi) == (0, 1):
                        return ('FILL', None)
                    if iop is _c.IN:
                        lits = sorted(chr(x[1]) for x in iav if x[0] is _c.LITERAL)
                        rngs = sorted((x[1][0], x[1][1]) for x in iav if x[0] is _c.RANGE)
                        if (lo, hi) == (0, 1) and lits == ['+', '-'] and not rngs:
                            return ('SIGN', None)
                        if rngs == [(48, 57)] and not lits and hi == MAXREPEAT:
                            return ('WIDTH', lo)
                        if sorted(rngs) == [(48, 57), (65, 70), (97, 102)] and not lits and hi == MAXREPEAT and lo == 1:
                            return ('HEXDIGITS', None)
            if op is _c.BRANCH:
                alts = []
                for alt in av[1]:
                    alts.append(_literal_text(alt))
                return ('ALT', alts)
        txt = _literal_text(sub)
        if txt is not None:
            return ('LIT', txt)
        return ('OTHER', None)

    def walk(sub, optional=False):
        for op, av in _items(sub):
            if op is _c.SUBPATTERN:
                g, _, _, inner = av
                if g is not None:
                    roles[g] = classify(inner) + (optional,)
                    order.append(('group', g))
                    walk_inner(inner)
                else:
                    walk(inner, optional)
            elif op is _c.MAX_REPEAT:
                lo, hi, inner = av
                walk(inner, optional or lo == 0)
            elif op is _c.BRANCH:
                for alt in av[1]:
                    walk(alt, True)
            elif op is _c.LITERAL:
                order.append(('lit', chr(av)))
            else:
                order.append((str(op).lower(), None))

    def walk_inner(sub):
        # nested capturing groups inside a capturing group
        for op, av in _items(sub):
            if op is _c.SUBPATTERN and av[0] is not None:
                roles[av[0]] = classify(av[3]) + (True,)
                order.append(('group', av[0]))
    walk(tree)
    return roles, order


def _literal_text(sub):
    """Text of a purely literal (possibly wholly optional) sub-pattern, '' for an optional literal; None if not literal."""
    out = ''
    it = _items(sub)
    for op, av in it:
        if op is _c.LITERAL:
            out += chr(av)
        elif op is _c.MAX_REPEAT and av[0] == 0 and av[1] == 1 and len(it) == 1:
            inner = _literal_text(av[2])
            if inner is None:
                return None
            return '?' + inner      # optional literal: matches '' or inner
        elif op is _c.SUBPATTERN and av[0] is None:
            inner = _literal_text(av[3])
            if inner is None:
                return None
            out += inner
        else:
            return None
    return out


def alignment_char(pattern):
    """The literal '<', '>' or '^' that stands between the SIGN and the WIDTH group (None if absent / ambiguous)."""
    roles, order = groups(pattern)
    sign = next((g for g, r in roles.items() if r[0] == 'SIGN'), None)
    width = next((g for g, r in roles.items() if r[0] == 'WIDTH'), None)
    if sign is None or width is None:
        return None
    try:
        i, j = order.index(('group', sign)), order.index(('group', width))
    except ValueError:
        return None
    lits = [v for k, v in order[i + 1:j] if k == 'lit']
    return lits[0] if len(lits) == 1 and lits[0] in '<>^' else None

"""A tiny abstract interpreter for index arithmetic: values are linear forms a*v + b*L + c over one symbolic index v and the
text length L, evaluated *per region* of v against the landmarks -L, 0, L (DESIGN 2.1 layer 7a).  No sampling, no solver: a
comparison whose truth the region does not determine raises Undecided."""
import ast

from .model import norm, call_name, const_val
from .finite import Undecided

# regions of v for L > 0, in ascending order; for L == 0 the landmarks coincide
REGIONS_POS = ['None', 'v<-L', 'v=-L', '-L<v<0', 'v=0', '0<v<L', 'v=L', 'v>L']
REGIONS_ZERO = ['None', 'v<0', 'v=0', 'v>0']

# position of v relative to the landmarks, as (cmp with -L, cmp with 0, cmp with L); -1 below, 0 equal, 1 above
_POS = {
    'v<-L': (-1, -1, -1), 'v=-L': (0, -1, -1), '-L<v<0': (1, -1, -1), 'v=0': (1, 0, -1), '0<v<L': (1, 1, -1), 'v=L': (1, 1, 0), 'v>L': (1, 1, 1),
}
_POS0 = {'v<0': (-1, -1, -1), 'v=0': (0, 0, 0), 'v>0': (1, 1, 1)}


class Lin:
    """a*v + b*L + c"""
    __slots__ = ('a', 'b', 'c')

    def __init__(self, a=0, b=0, c=0):
        self.a, self.b, self.c = a, b, c

    def __add__(self, o):
        return Lin(self.a + o.a, self.b + o.b, self.c + o.c)

    def __sub__(self, o):
        return Lin(self.a - o.a, self.b - o.b, self.c - o.c)

    def __neg__(self):
        return Lin(-self.a, -self.b, -self.c)

    def key(self):
        return (self.a, self.b, self.c)

    def __repr__(self):
        parts = []
        for k, n in ((self.a, 'v'), (self.b, 'L')):
            if k:
                parts.append(('' if k == 1 else '-' if k == -1 else '%d*' % k) + n)
        if self.c or not parts:
            parts.append(str(self.c))
        return ' + '.join(parts).replace('+ -', '- ')


NONE = 'NONE'


def sign_in_region(f, region, lzero=False):
    """Sign (-1, 0, 1) of linear form f in the region, or None if the region does not determine it."""
    a, b, c = f.a, f.b, f.c
    if lzero:
        b = 0   # L == 0
    if a == 0:
        if b == 0:
            return (c > 0) - (c < 0)
        # b*L + c with L >= 1
        if lzero:
            return (c > 0) - (c < 0)
        if b > 0 and c >= 0:
            return 1
        if b > 0 and c > -b:
            return 1          # b*L + c >= b + c > 0
        if b < 0 and c <= 0:
            return -1
        if b < 0 and c < -b:
            return -1
        return None
    if abs(a) != 1:
        return None
    # a*v + b*L + c ? 0   <=>   v ? T  with T = (-b*L - c)/a ; sign flips with a
    tb, tc = (-b * a), (-c * a)      # T = tb*L + tc   (a = +-1)
    pos = (_POS0 if lzero else _POS).get(region)
    if pos is None:
        return None
    if lzero:
        tb = 0
    if tb not in (-1, 0, 1):
        return None
    rel = pos[tb + 1]     # v relative to landmark tb*L
    # v vs T = landmark + tc  (integers)
    if tc == 0:
        s = rel
    elif tc > 0:
        # landmark + tc > landmark: v <= landmark  => v < T
        if rel <= 0:
            s = -1
        elif tc == 1 and rel == 1:
            # v > landmark => v >= landmark + 1 = T: v - T >= 0, equality possible unless region pins v
            s = None
        else:
            s = None
    else:
        if rel >= 0:
            s = 1
        else:
            s = None
    if s is None:
        return None
    return s * a


def cmp_in_region(op, left, right, region, lzero=False):
    """Truth of `left op right` (Lin operands) in the region; integer reasoning for strict/non-strict neighbours."""
    d = left - right
    s = sign_in_region(d, region, lzero)
    if s is None:
        # integer neighbours: d < 1 <=> d <= 0 ; d > -1 <=> d >= 0 ; try shifting by one
        if isinstance(op, (ast.Lt, ast.GtE)):
            s2 = sign_in_region(Lin(d.a, d.b, d.c), region, lzero)
        lo = sign_in_region(Lin(d.a, d.b, d.c - 1), region, lzero)   # sign of d-1
        hi = sign_in_region(Lin(d.a, d.b, d.c + 1), region, lzero)   # sign of d+1
        if isinstance(op, ast.Lt):       # d < 0 <=> d + 1 <= 0
            if hi is not None:
                return hi <= 0
        if isinstance(op, ast.LtE):      # d <= 0 <=> d - 1 < 0
            if lo is not None:
                return lo < 0
        if isinstance(op, ast.Gt):       # d > 0 <=> d - 1 >= 0
            if lo is not None:
                return lo >= 0
        if isinstance(op, ast.GtE):      # d >= 0 <=> d + 1 > 0
            if hi is not None:
                return hi > 0
        raise Undecided('sign of %r not determined in region %s' % (d, region))
    return {ast.Lt: s < 0, ast.LtE: s <= 0, ast.Gt: s > 0, ast.GtE: s >= 0, ast.Eq: s == 0, ast.NotEq: s != 0}[type(op)]


class Interp:
    """Interprets a straight function body (if/elif/else, local assignments, return) in one region."""

    def __init__(self, region, lzero, env, len_texts):
        self.region, self.lzero = region, lzero
        self.env = dict(env)            # name -> Lin | NONE
        self.len_texts = len_texts      # texts that denote L, e.g. 'len(self._s)'

    def ev(self, e):
        t = norm(e)
        if t in self.len_texts:
            return Lin(0, 1, 0)
        if isinstance(e, ast.Constant):
            if e.value is None:
                return NONE
            if isinstance(e.value, int) and not isinstance(e.value, bool):
                return Lin(0, 0, e.value)
            raise Undecided('constant %r' % (e.value,))
        if isinstance(e, ast.Name):
            if e.id in self.env:
                return self.env[e.id]
            raise Undecided('unknown name %s' % e.id)
        if isinstance(e, ast.UnaryOp) and isinstance(e.op, ast.USub):
            v = self.ev(e.operand)
            if v is NONE:
                raise Undecided('-None')
            return -v
        if isinstance(e, ast.BinOp) and isinstance(e.op, (ast.Add, ast.Sub)):
            a, b = self.ev(e.left), self.ev(e.right)
            if a is NONE or b is NONE:
                raise Undecided('arithmetic on None (TypeError at run time)')
            return a + b if isinstance(e.op, ast.Add) else a - b
        if isinstance(e, ast.Call) and call_name(e) in ('min', 'max') and len(e.args) == 2 and not e.keywords:
            a, b = self.ev(e.args[0]), self.ev(e.args[1])
            if a is NONE or b is NONE:
                raise Undecided('min/max on None (TypeError at run time)')
            a_le_b = cmp_in_region(ast.LtE(), a, b, self.region, self.lzero)
            if call_name(e) == 'min':
                return a if a_le_b else b
            return b if a_le_b else a
        if isinstance(e, ast.IfExp):
            return self.ev(e.body) if self.test(e.test) else self.ev(e.orelse)
        raise Undecided('expression %s' % t)

    def test(self, t):
        if isinstance(t, ast.BoolOp):
            if isinstance(t.op, ast.And):
                return all(self.test(v) for v in t.values)
            return any(self.test(v) for v in t.values)
        if isinstance(t, ast.UnaryOp) and isinstance(t.op, ast.Not):
            return not self.test(t.operand)
        if isinstance(t, ast.Compare) and len(t.ops) == 1:
            op = t.ops[0]
            l, r = self.ev(t.left), self.ev(t.comparators[0])
            if isinstance(op, (ast.Is, ast.IsNot, ast.Eq, ast.NotEq)) and (l is NONE or r is NONE):
                same = (l is NONE) and (r is NONE)
                return same if isinstance(op, (ast.Is, ast.Eq)) else not same
            if l is NONE or r is NONE:
                raise Undecided('ordering comparison with None (TypeError at run time)')
            return cmp_in_region(op, l, r, self.region, self.lzero)
        raise Undecided('test %s' % norm(t))

    def run(self, stmts):
        """Returns ('return', value) or ('fall', None)."""
        for st in stmts:
            if isinstance(st, ast.If):
                out = self.run(st.body if self.test(st.test) else st.orelse)
                if out[0] == 'return':
                    return out
            elif isinstance(st, ast.Return):
                return ('return', self.ev(st.value) if st.value is not None else NONE)
            elif isinstance(st, ast.Assign) and len(st.targets) == 1 and isinstance(st.targets[0], ast.Name):
                self.env[st.targets[0].id] = self.ev(st.value)
            elif isinstance(st, ast.AugAssign) and isinstance(st.target, ast.Name) and isinstance(st.op, (ast.Add, ast.Sub)):
                cur = self.env[st.target.id]
                v = self.ev(st.value)
                self.env[st.target.id] = cur + v if isinstance(st.op, ast.Add) else cur - v
            elif isinstance(st, ast.Expr) and isinstance(st.value, ast.Constant):
                continue
            elif isinstance(st, ast.Pass):
                continue
            else:
                raise Undecided('statement %s' % norm(st)[:60])
        return ('fall', None)


def expected_clamp(region, lzero, default):
    """Python's slice-bound normalisation for one bound with the given default (a Lin)."""
    if region == 'None':
        return default
    if lzero:
        return Lin(0, 0, 0)
    return {
        'v<-L': Lin(0, 0, 0), 'v=-L': Lin(0, 0, 0), '-L<v<0': Lin(1, 1, 0), 'v=0': Lin(0, 0, 0),
        '0<v<L': Lin(1, 0, 0), 'v=L': Lin(0, 1, 0), 'v>L': Lin(0, 1, 0),
    }[region]


def equal_in_region(a, b, region, lzero):
    if a is NONE or b is NONE:
        return a is b
    return sign_in_region(a - b, region, lzero) == 0

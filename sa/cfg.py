"""Statement-level CFG per function, dominators, bounded path enumeration with flag constant propagation
(DESIGN 2.1 layer 3)."""
import ast

from .model import norm
from .finite import eval_guard


class Node:
    __slots__ = ('id', 'kind', 'stmt', 'test', 'succ', 'pred')

    def __init__(self, i, kind, stmt=None, test=None):
        self.id, self.kind, self.stmt, self.test = i, kind, stmt, test
        self.succ = []   # (label, node)
        self.pred = []

    @property
    def line(self):
        n = self.stmt if self.stmt is not None else self.test
        return getattr(n, 'lineno', 0)

    def text(self):
        if self.kind in ('test', 'loop'):
            if isinstance(self.stmt, ast.For):
                return 'for %s in %s' % (norm(self.stmt.target), norm(self.stmt.iter))
            return ('while ' if self.kind == 'loop' else 'if ') + norm(self.test)
        if self.stmt is not None and self.kind not in ('try', 'except'):
            return ' '.join(norm(self.stmt).split())[:100]
        return self.kind

    def __repr__(self):
        return '<%d:%s:%s>' % (self.id, self.kind, self.text()[:40])


class CFG:
    def __init__(self, func_node, body=None):
        self.fn = func_node
        self.nodes = []
        self.entry = self.new('entry')
        self.exit = self.new('exit')
        self.raise_exit = self.new('raise-exit')
        self.loop_of = {}   # loop stmt -> loop head node
        outs = self.block(body if body is not None else func_node.body, [(None, self.entry)], None, None)
        for lab, n in outs:
            self._edge(n, lab, self.exit)

    def new(self, kind, stmt=None, test=None):
        n = Node(len(self.nodes), kind, stmt, test)
        self.nodes.append(n)
        return n

    def _edge(self, a, lab, b):
        a.succ.append((lab, b))
        b.pred.append((lab, a))

    def link(self, ins, node):
        for lab, n in ins:
            self._edge(n, lab, node)

    def block(self, stmts, ins, brk, cont):
        for st in stmts:
            if not ins:
                break
            ins = self.stmt(st, ins, brk, cont)
        return ins

    def stmt(self, st, ins, brk, cont):
        if isinstance(st, ast.If):
            t = self.new('test', stmt=st, test=st.test)
            self.link(ins, t)
            a = self.block(st.body, [(True, t)], brk, cont)
            b = self.block(st.orelse, [(False, t)], brk, cont) if st.orelse else [(False, t)]
            return a + b
        if isinstance(st, (ast.For, ast.While)):
            h = self.new('loop', stmt=st, test=getattr(st, 'test', None))
            self.loop_of[st] = h
            self.link(ins, h)
            brk_out = []
            body_out = self.block(st.body, [(True, h)], brk_out, h)
            self.link(body_out, h)
            outs = [(False, h)]
            if st.orelse:
                outs = self.block(st.orelse, outs, brk, cont)
            return outs + brk_out
        if isinstance(st, ast.Return):
            n = self.new('return', stmt=st)
            self.link(ins, n)
            self._edge(n, None, self.exit)
            return []
        if isinstance(st, ast.Raise):
            n = self.new('raise', stmt=st)
            self.link(ins, n)
            self._edge(n, None, self.raise_exit)
            return []
        if isinstance(st, ast.Break):
            n = self.new('break', stmt=st)
            self.link(ins, n)
            brk.append((None, n))
            return []
        if isinstance(st, ast.Continue):
            n = self.new('continue', stmt=st)
            self.link(ins, n)
            self._edge(n, None, cont)
            return []
        if isinstance(st, ast.Try):
            tn = self.new('try', stmt=st)
            self.link(ins, tn)
            body = self.block(st.body, [(None, tn)], brk, cont)
            # an exception may leave the protected body after any of its statements: model as edge from the try node and
            # from every node of the body (the else block is not protected)
            body_nodes = [n for n in self.nodes if n.id > tn.id]
            outs = self.block(st.orelse, body, brk, cont) if st.orelse else body
            for h in st.handlers:
                hn = self.new('except', stmt=h)
                self._edge(tn, 'exc', hn)
                for bn in body_nodes:
                    if bn.kind in ('stmt',):
                        self._edge(bn, 'exc', hn)
                outs = outs + self.block(h.body, [(None, hn)], brk, cont)
            if st.finalbody:
                outs = self.block(st.finalbody, outs, brk, cont)
            return outs
        if isinstance(st, (ast.FunctionDef, ast.ClassDef, ast.AsyncFunctionDef)):
            n = self.new('stmt', stmt=st)      # binds its name
            self.link(ins, n)
            return [(None, n)]
        if isinstance(st, ast.With):
            n = self.new('stmt', stmt=st)
            self.link(ins, n)
            return self.block(st.body, [(None, n)], brk, cont)
        n = self.new('stmt', stmt=st)
        self.link(ins, n)
        return [(None, n)]

    # -- dominators (iterative) ----------------------------------------------------------------------------------
    def dominators(self):
        if hasattr(self, '_dom'):
            return self._dom
        nodes = [n for n in self.nodes if n is self.entry or n.pred]
        allids = {n.id for n in nodes}
        dom = {n.id: set(allids) for n in nodes}
        dom[self.entry.id] = {self.entry.id}
        changed = True
        while changed:
            changed = False
            for n in nodes:
                if n is self.entry:
                    continue
                ps = [dom[p.id] for _, p in n.pred if p.id in dom]
                new = (set.intersection(*ps) if ps else set()) | {n.id}
                if new != dom[n.id]:
                    dom[n.id] = new
                    changed = True
        self._dom = dom
        return dom

    def dominates(self, a, b):
        """node a dominates node b"""
        return a.id in self.dominators().get(b.id, set())

    def node_of(self, stmt):
        for n in self.nodes:
            if n.stmt is stmt and n.kind != 'except':
                return n
        # an expression statement nested in a compound statement that the CFG keeps whole
        return None

    def reachable_from(self, start, avoid=()):
        seen = set()
        stack = [start]
        avoid = {a.id for a in avoid}
        while stack:
            n = stack.pop()
            if n.id in seen or n.id in avoid:
                continue
            seen.add(n.id)
            for _, s in n.succ:
                stack.append(s)
        return seen


class PathExplosion(Exception):
    pass


def default_transfer(node, env):
    """Constant propagation of boolean / None flags and invalidation of facts about reassigned names."""
    st = node.stmt
    if node.kind != 'stmt' or st is None:
        return
    tgts = []
    if isinstance(st, ast.Assign):
        tgts = st.targets
    elif isinstance(st, (ast.AugAssign, ast.AnnAssign)):
        tgts = [st.target]
    names = []
    for t in tgts:
        for x in ast.walk(t):
            if isinstance(x, ast.Name):
                names.append(x.id)
    for nme in names:
        for k in [k for k in env if not k.startswith('#') and _mentions(k, nme)]:
            env.pop(k)
    if isinstance(st, ast.Assign) and len(st.targets) == 1 and isinstance(st.targets[0], ast.Name):
        v = st.value
        nme = st.targets[0].id
        if isinstance(v, ast.Constant) and (isinstance(v.value, bool) or v.value is None):
            env[nme] = bool(v.value)
            if v.value is None:
                env[nme + ' is None'] = True
                env[nme + ' is not None'] = False
        elif isinstance(v, (ast.List, ast.Dict, ast.Tuple)) and not (v.elts if not isinstance(v, ast.Dict) else v.keys):
            env[nme] = False     # empty literal is falsy
        elif isinstance(v, ast.Constant) and isinstance(v.value, (str, int)):
            env[nme] = bool(v.value)


def _mentions(key, name):
    import re
    return re.search(r'(?<![\w.])%s(?![\w])' % re.escape(name), key) is not None


def env_valuation(env):
    def val(atom):
        t = norm(atom)
        if t in env:
            return env[t]
        if isinstance(atom, ast.Name) and atom.id in env:
            return env[atom.id]
        if isinstance(atom, ast.Compare) and len(atom.ops) == 1:
            # x is None / x is not None from a known None-ness
            l = norm(atom.left)
            if isinstance(atom.ops[0], (ast.Is, ast.IsNot)) and norm(atom.comparators[0]) == 'None':
                k = l + ' is None'
                if k in env:
                    return env[k] if isinstance(atom.ops[0], ast.Is) else not env[k]
        return None
    return val


def learn(test, outcome, env):
    """Record what a taken branch tells: the test text, and simple name / not-name facts."""
    env[norm(test)] = outcome
    if isinstance(test, ast.Name):
        env[test.id] = outcome
    elif isinstance(test, ast.UnaryOp) and isinstance(test.op, ast.Not):
        learn(test.operand, not outcome, env)
    elif isinstance(test, ast.BoolOp):
        if isinstance(test.op, ast.And) and outcome:
            for v in test.values:
                learn(v, True, env)
        elif isinstance(test.op, ast.Or) and not outcome:
            for v in test.values:
                learn(v, False, env)
    elif isinstance(test, ast.Compare) and len(test.ops) == 1 and isinstance(test.ops[0], (ast.Is, ast.IsNot)) \
            and norm(test.comparators[0]) == 'None':
        isnone = outcome if isinstance(test.ops[0], ast.Is) else not outcome
        env[norm(test.left) + ' is None'] = isnone
        env[norm(test.left) + ' is not None'] = not isnone


def paths(cfg, start, stop, env0=None, transfer=None, max_visits=2, limit=50000, valuation=None, emit_blocked=False):
    """Enumerate paths from node `start` until stop(node) (node other than start) or a function exit.
    Each loop head may be visited `max_visits` times.  Returns [(path [nodes], env)].
    env: dict of facts; tests decided by env (through eval_guard) prune infeasible branches."""
    out = []
    transfer = transfer or default_transfer
    stack = [(start, (start,), dict(env0 or {}), {})]
    steps = 0
    while stack:
        node, path, env, visits = stack.pop()
        steps += 1
        if steps > limit:
            raise PathExplosion('more than %d path steps' % limit)
        if node is not start and stop is not None and stop(node):
            out.append((list(path), env))
            continue
        if node.kind in ('exit', 'raise-exit'):
            out.append((list(path), env))
            continue
        env = dict(env)
        transfer(node, env)
        succ = node.succ
        if node.kind in ('test', 'loop') and node.test is not None:
            val = env_valuation(env)
            if valuation is not None:
                v0 = val
                val = lambda a, v0=v0: (valuation(a, env) if valuation(a, env) is not None else v0(a))
            v = eval_guard(node.test, val)
            if v is not None:
                succ = [(l, n) for l, n in succ if l is v or l not in (True, False)]
        if node.kind == 'loop' and visits.get(node.id, 0) > max_visits:
            # the body has been entered max_visits times: only leaving the loop is allowed now
            succ = [(l, n) for l, n in succ if l is not True]
        for lab, n in succ:
            c = visits.get(n.id, 0)
            if n.kind == 'loop' and c >= max_visits + 1:
                continue
            if n.kind == 'loop' and c >= max_visits and emit_blocked:
                out.append((list(path) + [n], env))
                continue
            if c >= max_visits + 2:
                continue
            v2 = dict(visits)
            v2[n.id] = c + 1
            e2 = env
            if node.kind in ('test', 'loop') and node.test is not None and lab in (True, False):
                e2 = dict(env)
                learn(node.test, lab, e2)
            if node.kind == 'loop' and isinstance(node.stmt, ast.For) and lab is True and visits.get(node.id, 0) >= 2:
                # a further iteration rebinds the loop target: facts about it (learned in the previous iteration) are stale;
                # facts given for the first iteration (env0) stay
                e2 = dict(e2)
                for x in ast.walk(node.stmt.target):
                    if isinstance(x, ast.Name):
                        for k in [k for k in e2 if not k.startswith('#') and _mentions(k, x.id)]:
                            e2.pop(k)
            stack.append((n, path + (n,), e2, v2))
    return out

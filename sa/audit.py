"""Sensitivity audit (thorough tier, DESIGN section 6 item 4).  For the functions a property's obligations are anchored in, every single-node
edit of the current source (sa/mutate.py operators) is built *in memory* and the property's rules are re-run on it.  Nothing is executed.
The audit records how many variants the rules tell apart from the current tree; a function that carries obligations but none of whose
variants is noticed makes the discharge vacuous (reported as an analysis error)."""
import ast
import multiprocessing as mp
import os
import re
import time

from . import mutate
from .model import Model, AnalysisError
from . import report
from .report import RULES, VIOL, UNDEC

FILES = ['ansi_string.py', 'ansi_parsing.py', 'ansi_format.py', 'ansi_param.py']
_CTX = {}


def _variants(repo, quals, limit_per_file=None):
    out = []
    for fname in FILES:
        path = os.path.join(repo, 'src', 'ansi_string', fname)
        tree = ast.parse(open(path).read())
        base = ast.unparse(tree)
        n = 0
        for qual, line, desc, ap in mutate.mutants_for(tree, fname):
            if not any(qual == q or qual.startswith(q + '.') for q in quals):
                continue
            if fname == 'ansi_format.py' and qual == 'AnsiFormat':
                continue     # 800 colour constants: sampled by rule T5 itself, exhaustively
            undo = ap()
            try:
                code = ast.unparse(tree)
            finally:
                undo()
            if code == base:
                continue
            try:
                compile(code, fname, 'exec')
            except Exception:
                continue
            out.append((fname[:-3], qual, line, desc, code))
            n += 1
    return out


def _run(args):
    modname, qual, line, desc, code = args
    repo, specs = _CTX['repo'], _CTX['specs']
    try:
        model = Model(repo, {modname: code})
    except AnalysisError:
        return (qual, desc, 'error')
    status = 'silent'
    for rid, flt in specs:
        try:
            obls = report.run_rule(rid, model)
            n_all = len(obls)
            if flt is not None:
                kept = [o for o in obls if flt.search('%s :: %s' % (o.func, o.construct))]
                obls = kept if (kept or not obls) else obls
        except AnalysisError:
            status = 'error' if status == 'silent' else status
            continue
        except Exception:
            status = 'error' if status == 'silent' else status
            continue
        if any(o.status == VIOL for o in obls):
            return (qual, desc, 'violation')
        if any(o.status == UNDEC for o in obls) or n_all < RULES[rid][2]:
            status = 'error'
    return (qual, desc, status)


def sensitivity(prop, repo, specs, obls, errors):
    t0 = time.time()
    rule_ids = [r for r, f in specs]
    quals = sorted({o.func for o in obls if not o.func.startswith('<')} | {o.func.split('.')[0] for o in obls if '.' in o.func and o.func.split('.')[0] in ('AnsiParam',)})
    # table rules are anchored at module level
    mods = sorted({o.func for o in obls if o.func.startswith('<module')})
    if any(r in rule_ids for r in ('T1', 'T2', 'T3')):
        quals += ['', 'AnsiParam', 'AnsiParamEffect', 'AnsiParamEffectFn']
    variants = _variants(repo, set(quals))
    if any(r in rule_ids for r in ('T1', 'T2', 'T3')):
        variants = [v for v in variants if v[1] != '' or v[0] == 'ansi_param']
    _CTX['repo'] = repo
    _CTX['specs'] = list(specs)
    jobs = min(16, os.cpu_count() or 4)
    with mp.Pool(jobs) as pool:
        res = pool.map(_run, variants, chunksize=4)
    per_fn = {}
    for qual, desc, st in res:
        d = per_fn.setdefault(qual or '<module>', {'variants': 0, 'violation': 0, 'error': 0, 'silent': 0})
        d['variants'] += 1
        d[st] += 1
    tot = {k: sum(d[k] for d in per_fn.values()) for k in ('variants', 'violation', 'error', 'silent')}
    blind = sorted(q for q, d in per_fn.items() if d['variants'] >= 8 and d['violation'] == 0 and d['error'] == 0)
    # (recorded, not an error: a function may carry an obligation of a rule that looks at one aspect of it only)
    samples = [{'function': q, 'edit': d, 'verdict': s} for q, d, s in res[:: max(1, len(res) // 25)]][:25]
    return {
        'sensitivity_audit': {
            'what': 'single-node AST edits of the functions this property\'s obligations are anchored in, built in memory and re-analysed (never executed); '
                    'an edit may be behaviour-preserving, so "silent" is not a miss by itself',
            'functions': len(per_fn), 'variants': tot['variants'], 'flagged_violation': tot['violation'], 'flagged_analysis_error': tot['error'],
            'silent': tot['silent'], 'functions_with_no_noticed_variant': blind, 'per_function': per_fn, 'samples': samples, 'wall_s': round(time.time() - t0, 1),
        },
        'evaluations': len(obls) + tot['variants'],
    }

"""Sensitivity audit (thorough tier) -- filled in later; see DESIGN section 6 item 4."""


def sensitivity(prop, repo, rule_ids, obls, errors):
    return {'sensitivity_audit': 'not yet implemented'}

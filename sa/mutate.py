"""Single-node AST edit operators (comparison swaps, and/or, dropped not, +-1 on ints, True/False, +/-, statement deletion, unwrapping
list()/str()/sorted()/reversed(), dropping .copy(), swapping the first two call arguments, semantic attribute/name pairs, table-entry edits).
Used by the sensitivity audit of the thorough tier: variants are built in memory from the current source and only *analysed*, never run."""
import ast

class Qual(ast.NodeVisitor):
    def __init__(self): self.stack=[]; self.map={}
    def generic_visit(self,node):
        push=isinstance(node,(ast.FunctionDef,ast.ClassDef))
        if push: self.stack.append(node.name)
        self.map[id(node)]='.'.join(self.stack)
        super().generic_visit(node)
        if push: self.stack.pop()

CMP_SWAP={ast.Lt:[ast.LtE],ast.LtE:[ast.Lt],ast.Gt:[ast.GtE],ast.GtE:[ast.Gt],ast.Eq:[ast.NotEq],ast.NotEq:[ast.Eq],ast.Is:[ast.Eq,ast.IsNot],ast.IsNot:[ast.Is],ast.In:[ast.NotIn],ast.NotIn:[ast.In]}

def mutants_for(tree, fname):
    q=Qual(); q.visit(tree)
    nodes=list(ast.walk(tree))
    out=[]
    def rec(node, desc, apply):
        out.append((q.map.get(id(node),''), getattr(node,'lineno',0), desc, apply))
    for node in nodes:
        if isinstance(node, ast.Compare):
            for i,op in enumerate(node.ops):
                for new in CMP_SWAP.get(type(op),[]):
                    def ap(n=node,i=i,new=new):
                        old=n.ops[i]; n.ops[i]=new(); return lambda: n.ops.__setitem__(i,old)
                    rec(node, f'cmp {type(op).__name__}->{new.__name__}', ap)
        if isinstance(node, ast.BoolOp):
            def ap(n=node):
                old=n.op; n.op = ast.Or() if isinstance(old,ast.And) else ast.And(); return lambda: setattr(n,'op',old)
            rec(node,'boolop swap',ap)
        if isinstance(node, ast.UnaryOp) and isinstance(node.op, ast.Not):
            # replace not x by x : need parent; do via field mutation hack: change op to UAdd-like? use double not
            pass
        if isinstance(node, ast.Constant) and isinstance(node.value,bool):
            def ap(n=node):
                old=n.value; n.value=not old; return lambda: setattr(n,'value',old)
            rec(node,f'bool {node.value}->{not node.value}',ap)
        elif isinstance(node, ast.Constant) and isinstance(node.value,int) and fname!='ansi_format.py':
            for d in (1,-1):
                def ap(n=node,d=d):
                    old=n.value; n.value=old+d; return lambda: setattr(n,'value',old)
                rec(node,f'int {node.value}->{node.value+d}',ap)
        if isinstance(node, ast.BinOp) and isinstance(node.op,(ast.Add,ast.Sub)):
            def ap(n=node):
                old=n.op; n.op = ast.Sub() if isinstance(old,ast.Add) else ast.Add(); return lambda: setattr(n,'op',old)
            rec(node,'binop +/-',ap)
        # statement deletion
        for field in ('body','orelse','finalbody'):
            body=getattr(node,field,None)
            if isinstance(body,list) and body and isinstance(body[0],ast.stmt):
                for i,st in enumerate(body):
                    if isinstance(st,(ast.Expr,ast.Assign,ast.AugAssign,ast.Break,ast.Continue,ast.Delete)) and not (isinstance(st,ast.Expr) and isinstance(st.value,ast.Constant)):
                        def ap(b=body,i=i):
                            old=b[i]; b[i]=ast.Pass(); return lambda: b.__setitem__(i,old)
                        rec(st,f'delstmt {ast.unparse(st)[:60]}',ap)
        # call unwrap list(x)->x, x.copy()->x
        for fld,val in ast.iter_fields(node):
            vals = val if isinstance(val,list) else [val]
            for j,v in enumerate(vals):
                if isinstance(v,ast.Call):
                    inner=None
                    if isinstance(v.func,ast.Name) and v.func.id in('list','dict','tuple','str','bool','sorted','reversed') and len(v.args)==1 and not v.keywords:
                        inner=v.args[0]; d=f'unwrap {v.func.id}()'
                    elif isinstance(v.func,ast.Attribute) and v.func.attr=='copy' and not v.args:
                        inner=v.func.value; d='drop .copy()'
                    if inner is not None:
                        def ap(n=node,fld=fld,j=j,inner=inner,islist=isinstance(val,list)):
                            if islist:
                                lst=getattr(n,fld); old=lst[j]; lst[j]=inner; return lambda: lst.__setitem__(j,old)
                            old=getattr(n,fld); setattr(n,fld,inner); return lambda: setattr(n,fld,old)
                        rec(v,f'{d}: {ast.unparse(v)[:50]}',ap)
                if isinstance(v,ast.UnaryOp) and isinstance(v.op,ast.Not):
                    def ap(n=node,fld=fld,j=j,inner=v.operand,islist=isinstance(val,list)):
                        if islist:
                            lst=getattr(n,fld); old=lst[j]; lst[j]=inner; return lambda: lst.__setitem__(j,old)
                        old=getattr(n,fld); setattr(n,fld,inner); return lambda: setattr(n,fld,old)
                    rec(v,f'drop not: {ast.unparse(v)[:50]}',ap)

        # attribute / name swaps within semantic pairs
        PAIRS={'add':'rem','rem':'add','APPLY_SETTING':'CLEAR_SETTING','CLEAR_SETTING':'APPLY_SETTING','start':'end','end':'start','find':'rfind','rfind':'find',
               'extend':'append','keys':'values','startswith':'endswith','endswith':'startswith','floor':'ceil','upper':'lower','valid':'parsable','parsable':'valid',
               'sequence':'terminator','FOREGROUND':'BACKGROUND','UNDERLINE':'DOUBLE_UNDERLINE','DOUBLE_UNDERLINE':'UNDERLINE','BACKGROUND':'FOREGROUND'}
        EFFECTS=['BOLDNESS','ITALICS','UNDERLINE','OVERLINE','BLINKING','SWAP_BG_FG','VISIBILITY','CROSSED_OUT','FONT_TYPE','SPACING','BOXING','FG_COLOR','BG_COLOR','UL_COLOR']
        if isinstance(node, ast.Attribute) and isinstance(node.ctx, ast.Load):
            if isinstance(node.value, ast.Name) and node.value.id=='AnsiParamEffect' and node.attr in EFFECTS:
                new=EFFECTS[(EFFECTS.index(node.attr)+1)%len(EFFECTS)]
                def ap(n=node,new=new):
                    old=n.attr; n.attr=new; return lambda: setattr(n,'attr',old)
                rec(node,f'effect {node.attr}->{new}',ap)
            elif isinstance(node.value, ast.Name) and node.value.id=='AnsiParam' and fname=='ansi_param.py' and node.attr.startswith(('NO_','DEFAULT','FG_DEFAULT','BG_DEFAULT')):
                def ap(n=node):
                    old=n.attr; n.attr='NO_ITALIC' if old!='NO_ITALIC' else 'NO_BLINK'; return lambda: setattr(n,'attr',old)
                rec(node,f'clearcode {node.attr}->other',ap)
            elif node.attr in PAIRS:
                def ap(n=node):
                    old=n.attr; n.attr=PAIRS[old]; return lambda: setattr(n,'attr',old)
                rec(node,f'attr {node.attr}->{PAIRS[node.attr]}',ap)
        if isinstance(node, ast.Name) and isinstance(node.ctx, ast.Load) and node.id in ('min','max','start','end','st','en'):
            sw={'min':'max','max':'min','start':'end','end':'start','st':'en','en':'st'}[node.id]
            def ap(n=node,sw=sw):
                old=n.id; n.id=sw; return lambda: setattr(n,'id',old)
            rec(node,f'name {node.id}->{sw}',ap)
        if isinstance(node, ast.Return) and node.value is not None and isinstance(node.value,(ast.Name,ast.Call)) and fname=='ansi_string.py':
            pass
        if isinstance(node, ast.Constant) and isinstance(node.value,str) and len(node.value)==1 and fname=='ansi_string.py' and node.value in 'ABCDEFGHJKST0':
            nv=chr(ord(node.value)+1)
            def ap(n=node,nv=nv):
                old=n.value; n.value=nv; return lambda: setattr(n,'value',old)
            rec(node,f'char {node.value}->{nv}',ap)
        # call arg swap (first two positional)
        if isinstance(node,ast.Call) and len(node.args)>=2:
            def ap(n=node):
                n.args[0],n.args[1]=n.args[1],n.args[0]; return lambda: (n.args.__setitem__(slice(0,2),[n.args[1],n.args[0]]))
            rec(node,f'swapargs {ast.unparse(node)[:50]}',ap)
    return out


"""Reference SGR tables, written from ECMA-48 (5th ed.) 8.3.117, ITU-T T.416 13.1.8 and xterm ctlseqs -- independently of
the repository.  Groups are the sets of parameters that are mutually exclusive on a conforming terminal (setting one
replaces the other); OFF is the parameter that returns the group to its default."""

# group id -> (codes that set the group, code that returns it to default)
GROUPS = {
    'intensity':  ({1, 2}, 22),                 # bold / faint; 22 = normal intensity
    'italic':     ({3}, 23),                    # 23 = not italicized, not fraktur
    'underline':  ({4, 21}, 24),                # singly / doubly underlined; 24 = not underlined
    'blink':      ({5, 6}, 25),                 # slow / rapid; 25 = steady
    'inverse':    ({7}, 27),                    # negative image; 27 = positive image
    'conceal':    ({8}, 28),                    # 28 = revealed
    'strike':     ({9}, 29),                    # crossed-out; 29 = not crossed out
    'font':       (set(range(11, 20)), 10),     # alternative fonts; 10 = primary font
    'spacing':    ({26}, 50),                   # proportional spacing (T.61); 50 = not proportional
    'fg':         (set(range(30, 39)) | set(range(90, 98)), 39),
    'bg':         (set(range(40, 49)) | set(range(100, 108)), 49),
    'frame':      ({51, 52}, 54),               # framed / encircled; 54 = neither
    'overline':   ({53}, 55),
    'ulcolor':    ({58}, 59),                   # xterm / kitty / T.416 extension
}
RESET = 0
# codes with two defensible readings (DESIGN 2.4, rule T1)
#   10: "primary font" == clearing the font group: may be classed APPLY or CLEAR of font
#   20: Fraktur: ECMA groups it with 23 (italic off), terminals that implement it treat it as a font
AMBIGUOUS_GROUP = {20: {'font', 'italic'}}
AMBIGUOUS_FN = {}      # (10 was tolerated as APPLY or CLEAR until D25 showed that the renderer, which writes 10 to end a font, needs the reader to agree)

EXTENDED_SETUP = {38: 'fg', 48: 'bg', 58: 'ulcolor'}   # followed by 5;n or 2;r;g;b
EXTENDED_FORMS = {5: 1, 2: 3}                            # colour-space selector -> number of arguments

COLOURS = ['BLACK', 'RED', 'GREEN', 'YELLOW', 'BLUE', 'MAGENTA', 'CYAN', 'WHITE']

# standard meaning of the library's public parameter names (public API names; unknown names are skipped and counted)
NAME_CODE = {
    'RESET': 0, 'BOLD': 1, 'FAINT': 2, 'ITALIC': 3, 'UNDERLINE': 4, 'SLOW_BLINK': 5, 'RAPID_BLINK': 6,
    'SWAP_BG_FG': 7, 'HIDE': 8, 'CROSSED_OUT': 9, 'DEFAULT_FONT': 10, 'GOTHIC_FONT': 20, 'DOUBLE_UNDERLINE': 21,
    'NO_BOLD_FAINT': 22, 'NO_ITALIC': 23, 'NO_UNDERLINE': 24, 'NO_BLINK': 25, 'PROPORTIONAL_SPACING': 26,
    'NO_SWAP_BG_FG': 27, 'NO_HIDE': 28, 'NO_CROSSED_OUT': 29, 'FG_SET': 38, 'FG_DEFAULT': 39, 'BG_SET': 48,
    'BG_DEFAULT': 49, 'NO_PROPORTIONAL_SPACING': 50, 'FRAMED': 51, 'ENCIRCLED': 52, 'OVERLINED': 53,
    'NO_FRAMED_ENCIRCLED': 54, 'NO_OVERLINED': 55, 'SET_UNDERLINE_COLOR': 58, 'SET_UNDERLINE_COLOUR': 58,
    'DEFAULT_UNDERLINE_COLOR': 59, 'DEFAULT_UNDERLINE_COLOUR': 59,
}
for _i in range(1, 10):
    NAME_CODE['ALT_FONT_%d' % _i] = 10 + _i
for _i, _c in enumerate(COLOURS):
    NAME_CODE['FG_' + _c] = 30 + _i
    NAME_CODE['BG_' + _c] = 40 + _i
    NAME_CODE['FG_BRIGHT_' + _c] = 90 + _i
    NAME_CODE['BG_BRIGHT_' + _c] = 100 + _i


def group_of(code):
    for g, (codes, off) in GROUPS.items():
        if code in codes or code == off:
            return g
    return None


def fn_of(code):
    if code == RESET:
        return 'RESET'
    for g, (codes, off) in GROUPS.items():
        if code == off:
            return 'CLEAR'
        if code in codes:
            return 'APPLY'
    return None


# final bytes of the cursor / erase / scroll helpers (ECMA-48 8.3: CUU CUD CUF CUB CNL CPL CHA CUP ED EL SU SD)
HELPER_FINAL = {
    'cursor_up_str': 'A', 'cursor_down_str': 'B', 'cursor_forward_str': 'C', 'cursor_backward_str': 'D',
    'cursor_back_str': 'D', 'cursor_next_line_str': 'E', 'cursor_previous_line_str': 'F',
    'cursor_horizontal_absolute_str': 'G', 'cursor_position_str': 'H', 'erase_in_display_str': 'J',
    'erase_in_line_str': 'K', 'scroll_up_str': 'S', 'scroll_down_str': 'T',
}

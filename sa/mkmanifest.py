"""Regenerates /verif/MANIFEST.json from sa/props.py and the rules actually implemented (developer tool)."""
import json, os, sys
sys.path.insert(0, os.path.dirname(os.path.dirname(os.path.abspath(__file__))))
from sa.props import PROPS, TEXT
from sa.report import RULES
import sa.rules  # noqa

V = os.path.dirname(os.path.dirname(os.path.abspath(__file__)))
checks, na = [], []
for pid in sorted(PROPS):
    impl = [(r if isinstance(r, str) else r[0]) for r in PROPS[pid]['rules'] if (r if isinstance(r, str) else r[0]) in RULES]
    t = TEXT[pid]
    if not impl or t.get('not_applicable'):
        na.append({'property_id': pid, 'reason': t.get('not_applicable') or 'no rule implemented yet for this property'})
        continue
    checks.append({
        'property_id': pid,
        'quick_cmd': '/venv/bin/python -m sa.check %s --tier quick' % pid,
        'thorough_cmd': '/venv/bin/python -m sa.check %s --tier thorough' % pid,
        'evidence_file': '/verif/evidence/%s.json' % pid,
        'replay_cmd_template': '/venv/bin/python -m sa.check %s --replay {path}' % pid,
        'engine': 'sa',
        'level_claimed': {
            'category': 'other',
            'text': 'Repository-specific static rules (%s) over the parsed source of /repo/src/ansi_string; decides: %s' % (', '.join(impl), t['decides']),
            'design_ref': 'DESIGN.md section 4, %s; rule catalogue section 3' % pid,
        },
        'level_note': 'Decides structural necessary conditions only, not the behaviour. Not decided: %s Assumes documented argument types, no reflection, Python call semantics.' % t['not_decided'],
        'technique': t['technique'],
    })
man = {
    'version': 1,
    'setup_cmd': '/venv/bin/python -c "import ast,sys; sys.path.insert(0,\'/verif\'); import sa.check; print(\'sa framework importable\')"',
    'hooks': {
        'guard': 'TAILS86_ANSI_STRING_VERIF',
        'enable': 'none needed: the checks parse /repo/src/ansi_string and never import or execute it; the guard is unused',
        'baseline_off_cmd': 'cd /repo && /venv/bin/python -m pytest -ra -q -p no:cacheprovider --timeout=900 --continue-on-collection-errors',
        'source_commits': [],
        'add_only': True,
    },
    'engines': [{
        'name': 'sa', 'path': '/verif/sa',
        'serves_properties': [c['property_id'] for c in checks],
        'kind_free_text': 'custom static analyser on Python ast: constant folding of the SGR tables, delegation/shape matchers, '
                          'per-function CFG with flag-specialised path enumeration, provenance (alias/effect) analysis, finite-domain guard evaluation',
    }],
    'checks': checks,
    'not_applicable': na,
    'notes': 'Exit codes: 0 hold (KNOWN-FINDING lines allowed), 1 VIOLATION with a positive witness construct, 2 ANALYSIS-ERROR '
             '(anchor vanished / undecided shape / instance floor not met). Nothing in /repo is executed by any check.',
}
json.dump(man, open(os.path.join(V, 'MANIFEST.json'), 'w'), indent=1)
print('claimed', [c['property_id'] for c in checks], 'n/a', [n['property_id'] for n in na])

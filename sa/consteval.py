"""Restricted constant folding over module-level and enum-body assignments.  Never calls repository code."""
import ast

from .model import AnalysisError, norm


class Unfoldable(Exception):
    pass


class EnumRef:
    """A reference to an enum member (canonical name after alias resolution)."""
    __slots__ = ('cls', 'name')

    def __init__(self, cls, name):
        self.cls, self.name = cls, name

    def __eq__(self, o):
        return isinstance(o, EnumRef) and (o.cls, o.name) == (self.cls, self.name)

    def __hash__(self):
        return hash((self.cls, self.name))

    def __repr__(self):
        return '%s.%s' % (self.cls, self.name)


class Auto:
    """enum.auto(): an opaque unique token."""
    _n = 0

    def __init__(self):
        Auto._n += 1
        self.n = Auto._n

    def __repr__(self):
        return 'auto#%d' % self.n


class Sym:
    """A symbolic (unfolded) record: a call to a repository helper with folded arguments."""

    def __init__(self, func, args, node):
        self.func, self.args, self.node = func, args, node

    def __repr__(self):
        return 'Sym(%s%r)' % (self.func, tuple(self.args))


class Enum:
    def __init__(self, name):
        self.name = name
        self.members = {}   # canonical name -> folded value (or Sym / Auto)
        self.alias = {}     # alias name -> canonical name
        self.nodes = {}     # name -> value node
        self.order = []

    def canon(self, name):
        seen = set()
        while name in self.alias and name not in seen:
            seen.add(name)
            name = self.alias[name]
        return name

    def has(self, name):
        return name in self.members or name in self.alias

    def value(self, name):
        return self.members[self.canon(name)]


class Folder:
    def __init__(self, model):
        self.m = model
        self.enums = {}
        self.funcs = {}   # module-level functions, for table-building helpers that are one return expression
        self.env = {}  # module-qualified later; names are unique enough across this package
        order = ['ansi_param', 'ansi_format', 'ansi_parsing', 'ansi_string']
        for modname in order:
            if modname not in model.mods:
                continue
            mod = model.mods[modname]
            for st in mod.tree.body:
                self._module_stmt(st)

    def _module_stmt(self, st, depth=0):
        if True:
            if True:
                if isinstance(st, ast.For) and depth < 2 and not st.orelse:
                    # a table filled in a module-level loop over a literal table: the loop is run (bounded), the loop variables are ordinary names meanwhile
                    try:
                        items = self.fold(st.iter)
                    except Unfoldable:
                        items = None
                    tnames = [x.id for x in ast.walk(st.target) if isinstance(x, ast.Name)]
                    touched = {x.func.value.id for b in st.body for x in ast.walk(b) if isinstance(x, ast.Call) and isinstance(x.func, ast.Attribute) and
                               isinstance(x.func.value, ast.Name) and x.func.attr == 'update'} | \
                        {x.targets[0].value.id for b in st.body for x in ast.walk(b) if isinstance(x, ast.Assign) and isinstance(x.targets[0], ast.Subscript) and
                         isinstance(x.targets[0].value, ast.Name)} | \
                        {x.target.id for b in st.body for x in ast.walk(b) if isinstance(x, ast.AugAssign) and isinstance(x.target, ast.Name)}
                    if not isinstance(items, (list, tuple)) or len(items) > 64:
                        for t_ in touched:
                            self.env.pop(t_, None)      # filled by a loop that is not followed: the table is not known any more
                        return
                    saved = {k: self.env.get(k, Unfoldable) for k in tnames}
                    for item in items:
                        if isinstance(st.target, ast.Name):
                            self.env[st.target.id] = item
                        elif isinstance(st.target, ast.Tuple) and isinstance(item, (list, tuple)) and len(item) == len(st.target.elts) and \
                                all(isinstance(x, ast.Name) for x in st.target.elts):
                            for x, v in zip(st.target.elts, item):
                                self.env[x.id] = v
                        else:
                            for t_ in touched:
                                self.env.pop(t_, None)
                            break
                        for b in st.body:
                            self._module_stmt(b, depth + 1)
                    for k, v in saved.items():
                        if v is Unfoldable:
                            self.env.pop(k, None)
                        else:
                            self.env[k] = v
                    return
                if isinstance(st, ast.ClassDef) and any('Enum' in norm(b) for b in st.bases):
                    self._fold_enum(st)
                elif isinstance(st, ast.FunctionDef):
                    self.funcs[st.name] = st
                elif isinstance(st, (ast.Assign, ast.AnnAssign)):
                    tgt = st.targets[0] if isinstance(st, ast.Assign) else st.target
                    if isinstance(tgt, ast.Name) and st.value is not None:
                        try:
                            self.env[tgt.id] = self.fold(st.value)
                        except Unfoldable:
                            pass
                elif isinstance(st, ast.ImportFrom):
                    for a in st.names:
                        if a.asname and a.name in self.env:
                            self.env[a.asname] = self.env[a.name]
                elif isinstance(st, ast.Expr) and isinstance(st.value, ast.Call) and isinstance(st.value.func, ast.Attribute) and \
                        isinstance(st.value.func.value, ast.Name) and isinstance(self.env.get(st.value.func.value.id), dict) and \
                        st.value.func.attr == 'update' and len(st.value.args) == 1 and not st.value.keywords:
                    # TABLE.update({...}) at module level: the table keeps being built
                    try:
                        add = self.fold(st.value.args[0])
                        if isinstance(add, dict):
                            self.env[st.value.func.value.id] = {**self.env[st.value.func.value.id], **add}
                    except Unfoldable:
                        self.env.pop(st.value.func.value.id, None)       # an unknown part: the table is not known any more
                elif isinstance(st, ast.AugAssign) and isinstance(st.target, ast.Name) and isinstance(self.env.get(st.target.id), dict) and isinstance(st.op, ast.BitOr):
                    try:
                        add = self.fold(st.value)
                        if isinstance(add, dict):
                            self.env[st.target.id] = {**self.env[st.target.id], **add}
                    except Unfoldable:
                        self.env.pop(st.target.id, None)
                elif isinstance(st, ast.Assign) and len(st.targets) == 1 and isinstance(st.targets[0], ast.Subscript) and isinstance(st.targets[0].value, ast.Name) and \
                        isinstance(self.env.get(st.targets[0].value.id), dict):
                    try:
                        self.env[st.targets[0].value.id] = {**self.env[st.targets[0].value.id], self.fold(st.targets[0].slice): self.fold(st.value)}
                    except Unfoldable:
                        self.env.pop(st.targets[0].value.id, None)

    def _fold_enum(self, cdef):
        e = Enum(cdef.name)
        self.enums[cdef.name] = e
        for st in cdef.body:
            if not (isinstance(st, ast.Assign) and len(st.targets) == 1 and isinstance(st.targets[0], ast.Name)):
                continue
            name = st.targets[0].id
            v = st.value
            e.nodes[name] = v
            e.order.append(name)
            if isinstance(v, ast.Name) and e.has(v.id):
                e.alias[name] = v.id
                continue
            try:
                e.members[name] = self.fold(v, local_enum=e)
            except Unfoldable:
                e.members[name] = Sym('?', [], v)

    _locals = None
    _depth = 0

    def _elts(self, elts, local_enum):
        out = []
        for x in elts:
            if isinstance(x, ast.Starred):
                v = self.fold(x.value, local_enum)
                if not isinstance(v, (list, tuple)):
                    raise Unfoldable(norm(x))
                out.extend(v)
            else:
                out.append(self.fold(x, local_enum))
        return out

    def _comp(self, n, local_enum):
        """comprehension over foldable iterables (generators nest like for loops): [(bindings), ...] for which every `if` folds to true"""
        saved = self._locals
        rows = []

        def rec(gi, loc):
            if gi == len(n.generators):
                rows.append(loc)
                if len(rows) > 8192:
                    raise Unfoldable(norm(n))
                return
            g = n.generators[gi]
            if g.is_async:
                raise Unfoldable(norm(n))
            self._locals = loc
            it = self.fold(g.iter, local_enum)
            if isinstance(it, dict):
                it = list(it)
            if not isinstance(it, (list, tuple)) or len(it) > 4096:
                raise Unfoldable(norm(n))
            for item in it:
                loc2 = dict(loc)
                if isinstance(g.target, ast.Name):
                    loc2[g.target.id] = item
                elif isinstance(g.target, ast.Tuple) and isinstance(item, (tuple, list)) and len(item) == len(g.target.elts) and \
                        all(isinstance(x, ast.Name) for x in g.target.elts):
                    loc2.update({x.id: v for x, v in zip(g.target.elts, item)})
                else:
                    raise Unfoldable(norm(n))
                self._locals = loc2
                if all(self.fold(c, local_enum) for c in g.ifs):
                    rec(gi + 1, loc2)
        try:
            rec(0, dict(saved or {}))
        finally:
            self._locals = saved
        return rows

    def _with(self, loc, node, local_enum):
        saved = self._locals
        self._locals = loc
        try:
            return self.fold(node, local_enum)
        finally:
            self._locals = saved

    def fold(self, n, local_enum=None):
        if isinstance(n, ast.Constant):
            return n.value
        if isinstance(n, ast.Name):
            if self._locals and n.id in self._locals:
                return self._locals[n.id]
            if local_enum is not None and local_enum.has(n.id):
                return local_enum.value(n.id)
            if n.id in self.env:
                return self.env[n.id]
            if n.id in self.enums:
                # the enum class itself, iterated: its members in definition order (aliases excluded)
                e_ = self.enums[n.id]
                return [EnumRef(e_.name, k_) for k_ in e_.members]
            raise Unfoldable(n.id)
        if isinstance(n, ast.Tuple):
            return tuple(self._elts(n.elts, local_enum))
        if isinstance(n, ast.List):
            return self._elts(n.elts, local_enum)
        if isinstance(n, ast.Dict):
            out = {}
            for k, v in zip(n.keys, n.values):
                if k is None:
                    sub = self.fold(v, local_enum)
                    if not isinstance(sub, dict):
                        raise Unfoldable(norm(n))
                    out.update(sub)
                else:
                    out[self._key(self.fold(k, local_enum))] = self.fold(v, local_enum)
            return out
        if isinstance(n, ast.DictComp):
            return {self._key(self._with(loc, n.key, local_enum)): self._with(loc, n.value, local_enum) for loc in self._comp(n, local_enum)}
        if isinstance(n, (ast.ListComp, ast.GeneratorExp)):
            return [self._with(loc, n.elt, local_enum) for loc in self._comp(n, local_enum)]
        if isinstance(n, ast.Compare) and len(n.ops) == 1:
            a, b = self.fold(n.left, local_enum), self.fold(n.comparators[0], local_enum)
            op = n.ops[0]
            try:
                if isinstance(op, ast.Eq):
                    return a == b
                if isinstance(op, ast.NotEq):
                    return a != b
                if isinstance(op, ast.Lt):
                    return a < b
                if isinstance(op, ast.LtE):
                    return a <= b
                if isinstance(op, ast.Gt):
                    return a > b
                if isinstance(op, ast.GtE):
                    return a >= b
                if isinstance(op, ast.In):
                    return a in b
                if isinstance(op, ast.NotIn):
                    return a not in b
            except TypeError:
                pass
            raise Unfoldable(norm(n))
        if isinstance(n, ast.Call) and isinstance(n.func, ast.Name) and n.func.id in ('set', 'frozenset') and len(n.args) == 1 and not n.keywords and \
                n.func.id not in self.env and n.func.id not in self.funcs:
            v = self.fold(n.args[0], local_enum)
            if isinstance(v, str):
                v = list(v)
            if isinstance(v, (list, tuple, frozenset)) and all(type(x) in (int, str) for x in v):
                return frozenset(v)
            raise Unfoldable(norm(n))
        if isinstance(n, ast.Call) and isinstance(n.func, ast.Name) and n.func.id == 'range' and not n.keywords and \
                (1 <= len(n.args) <= 3 or any(isinstance(a, ast.Starred) for a in n.args)):
            args = self._elts(n.args, local_enum)
            if not 1 <= len(args) <= 3:
                raise Unfoldable(norm(n))
            if all(isinstance(a, int) and not isinstance(a, bool) for a in args) and not (len(args) == 3 and args[2] == 0):
                r = range(*args)
                if len(r) <= 4096:
                    return list(r)
            raise Unfoldable(norm(n))
        if isinstance(n, ast.Call) and isinstance(n.func, ast.Name) and n.func.id in ('enumerate', 'zip', 'reversed', 'sorted') and not n.keywords and n.args and \
                n.func.id not in self.env and n.func.id not in self.funcs:
            vals = [self.fold(a, local_enum) for a in n.args]
            if n.func.id == 'enumerate' and isinstance(vals[0], (list, tuple)) and len(vals) <= 2 and (len(vals) == 1 or type(vals[1]) is int):
                return [(i_, x) for i_, x in enumerate(vals[0], vals[1] if len(vals) == 2 else 0)]
            if n.func.id == 'zip' and all(isinstance(v, (list, tuple)) for v in vals):
                return [tuple(t_) for t_ in zip(*vals)]
            if n.func.id == 'reversed' and len(vals) == 1 and isinstance(vals[0], (list, tuple)):
                return list(reversed(vals[0]))
            if n.func.id == 'sorted' and len(vals) == 1 and isinstance(vals[0], (list, tuple)) and all(type(x) in (int, str) for x in vals[0]):
                return sorted(vals[0])
            raise Unfoldable(norm(n))
        if isinstance(n, ast.Call) and isinstance(n.func, ast.Name) and n.func.id in ('ord', 'chr', 'str', 'int', 'len') and len(n.args) == 1 and not n.keywords \
                and n.func.id not in self.env and n.func.id not in self.funcs:
            v = self.fold(n.args[0], local_enum)
            try:
                if n.func.id == 'ord' and isinstance(v, str) and len(v) == 1:
                    return ord(v)
                if n.func.id == 'chr' and type(v) is int and 0 <= v < 0x110000:
                    return chr(v)
                if n.func.id == 'str' and type(v) in (int, str):
                    return str(v)
                if n.func.id == 'int' and type(v) in (int, str):
                    return int(v)
                if n.func.id == 'len' and isinstance(v, (str, list, tuple, dict)):
                    return len(v)
            except ValueError:
                pass
            raise Unfoldable(norm(n))
        if isinstance(n, ast.Call) and isinstance(n.func, ast.Name) and n.func.id in ('dict', 'tuple', 'list') and len(n.args) == 1 and not n.keywords:
            v = self.fold(n.args[0], local_enum)
            if n.func.id == 'dict' and isinstance(v, dict):
                return dict(v)
            if n.func.id == 'dict' and isinstance(v, (list, tuple)) and all(isinstance(x, (list, tuple)) and len(x) == 2 for x in v):
                return {self._key(k): x for k, x in v}
            if n.func.id in ('tuple', 'list') and isinstance(v, (list, tuple)):
                return tuple(v) if n.func.id == 'tuple' else list(v)
            raise Unfoldable(norm(n))
        if isinstance(n, ast.UnaryOp) and isinstance(n.op, ast.USub):
            return -self.fold(n.operand, local_enum)
        if isinstance(n, ast.BinOp) and isinstance(n.op, ast.Mod):
            a, b = self.fold(n.left, local_enum), self.fold(n.right, local_enum)
            if isinstance(a, str) and (type(b) in (int, str) or (isinstance(b, tuple) and all(type(x) in (int, str) for x in b))):
                try:
                    return a % b
                except (TypeError, ValueError):
                    pass
            raise Unfoldable(norm(n))
        if isinstance(n, ast.BinOp) and isinstance(n.op, (ast.Sub, ast.Mult)):
            a, b = self.fold(n.left, local_enum), self.fold(n.right, local_enum)
            if type(a) is int and type(b) is int:
                return a - b if isinstance(n.op, ast.Sub) else a * b
            raise Unfoldable(norm(n))
        if isinstance(n, ast.BinOp) and isinstance(n.op, ast.Add):
            a, b = self.fold(n.left, local_enum), self.fold(n.right, local_enum)
            if type(a) is type(b) and isinstance(a, (str, tuple, int, list)):
                return a + b
            raise Unfoldable(norm(n))
        if isinstance(n, ast.Attribute):
            # Enum.MEMBER / Enum.MEMBER.value
            if isinstance(n.value, ast.Name) and n.value.id in self.enums:
                e = self.enums[n.value.id]
                if e.has(n.attr):
                    return EnumRef(e.name, e.canon(n.attr))
                raise Unfoldable(norm(n))
            if n.attr == 'value':
                base = self.fold(n.value, local_enum)
                if isinstance(base, EnumRef):
                    return self.enums[base.cls].value(base.name)
            raise Unfoldable(norm(n))
        if isinstance(n, ast.Call):
            f = n.func
            if isinstance(f, ast.Name) and f.id in ('enum_auto', 'auto') and not n.args:
                return Auto()
            if isinstance(f, ast.Attribute) and f.attr == 'auto' and not n.args:
                return Auto()
            if isinstance(f, ast.Name) and f.id in self.funcs:
                # a module-level helper that is one `return <expr>` over its parameters (a table-building helper): evaluate the
                # expression with the folded arguments bound
                fd = self.funcs[f.id]
                body = [b for b in fd.body if not (isinstance(b, ast.Expr) and isinstance(b.value, ast.Constant))]
                a_ = fd.args
                if len(body) == 1 and isinstance(body[0], ast.Return) and body[0].value is not None and not (a_.vararg or a_.kwarg or a_.kwonlyargs or a_.posonlyargs) \
                        and not fd.decorator_list and not any(isinstance(x, ast.Starred) for x in n.args) and all(k.arg for k in n.keywords):
                    names = [x.arg for x in a_.args]
                    loc = {}
                    dflt = dict(zip(names[len(names) - len(a_.defaults):], a_.defaults))
                    if len(n.args) <= len(names):
                        for nm, av in zip(names, n.args):
                            loc[nm] = self.fold(av, local_enum)
                        for k in n.keywords:
                            if k.arg in names and k.arg not in loc:
                                loc[k.arg] = self.fold(k.value, local_enum)
                        for nm in names:
                            if nm not in loc and nm in dflt:
                                loc[nm] = self.fold(dflt[nm], local_enum)
                        if set(loc) == set(names) and self._depth < 4:
                            self._depth += 1
                            try:
                                return self._with(loc, body[0].value, local_enum)
                            finally:
                                self._depth -= 1
                raise Unfoldable(norm(n))
            if isinstance(f, ast.Attribute) and f.attr == 'format' and not n.keywords:
                base = self.fold(f.value, local_enum)
                args = self._elts(n.args, local_enum)
                if isinstance(base, str) and all(type(a) in (int, str) for a in args):
                    try:
                        return base.format(*args)
                    except (IndexError, KeyError, ValueError):
                        raise Unfoldable(norm(n))
            if isinstance(f, ast.Attribute) and f.attr == 'escape' and isinstance(f.value, ast.Name) and f.value.id == 're' and len(n.args) == 1 and not n.keywords:
                v = self.fold(n.args[0], local_enum)
                if isinstance(v, str):
                    import re as _re
                    return _re.escape(v)
            if isinstance(f, ast.Attribute) and isinstance(f.value, ast.Name) and f.value.id in self.m.classes:
                # helper call with (hopefully) literal arguments: keep symbolic
                args = []
                for a in n.args:
                    try:
                        args.append(self.fold(a, local_enum))
                    except Unfoldable:
                        args.append(Sym('?', [], a))
                if n.keywords:
                    args.append(Sym('kw', [k.arg for k in n.keywords], n))
                return Sym('%s.%s' % (f.value.id, f.attr), args, n)
            raise Unfoldable(norm(n))
        raise Unfoldable(norm(n))

    @staticmethod
    def _key(k):
        return k

    def enum(self, name):
        if name not in self.enums:
            raise AnalysisError('anchor vanished: enum %s' % name)
        return self.enums[name]


def get_folder(model):
    f = getattr(model, '_folder', None)
    if f is None:
        f = model._folder = Folder(model)
    return f

"""Finite-domain evaluation of guards (DESIGN 2.1 layer 7): the program only ever *compares* the quantity, so a guard is a
truth table over an explicitly enumerated set of orderings.  No solver, no sampling."""
import ast
import itertools

from .model import norm, const_val

_REG = {ast.Lt: {'<'}, ast.LtE: {'<', '='}, ast.Gt: {'>'}, ast.GtE: {'>', '='}, ast.Eq: {'='}, ast.NotEq: {'<', '>'}}
_MIRROR = {'<': '>', '>': '<', '=': '='}


def cmp_regions(op, swapped=False):
    """Regions of (L ? R) in {'<','=','>'} where `L op R` holds; swapped: the source wrote `R op L`."""
    regs = _REG.get(type(op))
    if regs is None:
        return None
    return {_MIRROR[r] for r in regs} if swapped else set(regs)


class Undecided(Exception):
    pass


class ZeroDiv(Undecided):
    """the expression divides by zero for the given values: the program raises ZeroDivisionError there"""


def int_eval(expr, env):
    """Evaluate a small integer / boolean expression (constants, names in env by text, + -, comparisons, and/or/not) exactly.
    env maps normalised texts to ints.  Raises Undecided on anything else."""
    t = norm(expr)
    if t in env:
        return env[t]
    if isinstance(expr, ast.Constant) and isinstance(expr.value, (int, bool)):
        return expr.value
    if isinstance(expr, ast.UnaryOp) and isinstance(expr.op, ast.USub):
        return -int_eval(expr.operand, env)
    if isinstance(expr, ast.UnaryOp) and isinstance(expr.op, ast.Not):
        return not int_eval(expr.operand, env)
    if isinstance(expr, ast.BinOp) and isinstance(expr.op, (ast.Add, ast.Sub)):
        a, b = int_eval(expr.left, env), int_eval(expr.right, env)
        return a + b if isinstance(expr.op, ast.Add) else a - b
    if isinstance(expr, ast.BinOp) and isinstance(expr.op, (ast.Mult, ast.Mod, ast.FloorDiv)):
        a, b = int_eval(expr.left, env), int_eval(expr.right, env)
        if isinstance(expr.op, ast.Mult):
            return a * b
        if b == 0:
            raise ZeroDiv('division by zero in %s' % t)
        return a % b if isinstance(expr.op, ast.Mod) else a // b
    if isinstance(expr, ast.BoolOp):
        vals = [int_eval(v, env) for v in expr.values]
        return all(vals) if isinstance(expr.op, ast.And) else any(vals)
    if isinstance(expr, ast.Compare):
        left = int_eval(expr.left, env)
        for op, c in zip(expr.ops, expr.comparators):
            right = int_eval(c, env)
            ok = {ast.Lt: left < right, ast.LtE: left <= right, ast.Gt: left > right, ast.GtE: left >= right,
                  ast.Eq: left == right, ast.NotEq: left != right}.get(type(op))
            if ok is None:
                raise Undecided('operator in %s' % t)
            if not ok:
                return False
            left = right
        return True
    raise Undecided('expression %s' % t)


def eval_guard(test, valuation):
    """Evaluate a boolean expression under `valuation`: a callable (ast node) -> True/False/None for atoms.
    Three-valued; BoolOp / Not handled here.  Returns True / False / None."""
    if isinstance(test, ast.BoolOp):
        vals = [eval_guard(v, valuation) for v in test.values]
        if isinstance(test.op, ast.And):
            if any(v is False for v in vals):
                return False
            return True if all(v is True for v in vals) else None
        if any(v is True for v in vals):
            return True
        return False if all(v is False for v in vals) else None
    if isinstance(test, ast.UnaryOp) and isinstance(test.op, ast.Not):
        v = eval_guard(test.operand, valuation)
        return None if v is None else (not v)
    if isinstance(test, ast.Constant):
        return bool(test.value)
    if isinstance(test, ast.IfExp):
        v = eval_guard(test.test, valuation)
        if v is None:
            a, b = eval_guard(test.body, valuation), eval_guard(test.orelse, valuation)
            return a if a == b else None
        return eval_guard(test.body if v else test.orelse, valuation)
    if isinstance(test, ast.Call) and isinstance(test.func, ast.Name) and test.func.id == 'bool' and len(test.args) == 1 and not test.keywords:
        return eval_guard(test.args[0], valuation)
    if isinstance(test, ast.Compare) and len(test.ops) > 1:
        # a < b < c
        left = test.left
        out = True
        for op, right in zip(test.ops, test.comparators):
            v = valuation(ast.Compare(left=left, ops=[op], comparators=[right]))
            if v is False:
                return False
            if v is None:
                out = None
            left = right
        return out
    return valuation(test)


def _rank(node, order):
    """Rank of a term: a ranked text, or ranked text +- 1 (integers: strictly between the neighbouring landmarks)."""
    t = norm(node)
    if t in order:
        return order[t]
    k = const_val(node, None)
    if isinstance(k, int) and not isinstance(k, bool):
        return k            # integer literals rank by their own value (callers rank symbols with small integers)
    if isinstance(node, ast.BinOp) and isinstance(node.op, (ast.Add, ast.Sub)) and const_val(node.right, None) == 1 and norm(node.left) in order:
        return order[norm(node.left)] + (0.5 if isinstance(node.op, ast.Add) else -0.5)
    return None


def order_valuation(order):
    """order: dict term text -> rank (numbers; equal rank == equal value).  Atoms: comparisons between ranked terms
    (and integer literals if ranked under their text); `x in range(a, b)` is a <= x < b."""
    def val(atom):
        if isinstance(atom, ast.Compare) and len(atom.ops) == 1 and isinstance(atom.ops[0], (ast.In, ast.NotIn)) and \
                isinstance(atom.comparators[0], ast.Call) and norm(atom.comparators[0].func) == 'range':
            args = atom.comparators[0].args
            lo = hi = None
            if len(args) == 1 and isinstance(args[0], ast.Starred):
                base = norm(args[0].value)
                lo, hi = order.get(base + '[0]'), order.get(base + '[1]')
            elif len(args) == 2:
                lo, hi = _rank(args[0], order), _rank(args[1], order)
            x = _rank(atom.left, order)
            if lo is None or hi is None or x is None:
                return None
            inside = lo <= x < hi
            return inside if isinstance(atom.ops[0], ast.In) else not inside
        if isinstance(atom, ast.Compare) and len(atom.ops) == 1:
            l, r = norm(atom.left), norm(atom.comparators[0])
            a, b = _rank(atom.left, order), _rank(atom.comparators[0], order)
            if a is not None and b is not None:
                reg = '<' if a < b else '=' if a == b else '>'
                regs = cmp_regions(atom.ops[0])
                if regs is None:
                    return None
                return reg in regs
        t = norm(atom)
        if t in order and isinstance(order[t], bool):
            return order[t]
        return None
    return val


def run_block(stmts, valuation, visit, visit_test=None):
    """Symbolically run a statement list under a *complete* valuation of its tests: every `if` must evaluate to True/False
    (else Undecided).  `visit(stmt)` is called for every simple statement executed.  Loops are not entered (visit gets the
    loop statement).  Returns one of 'fall', 'break', 'continue', 'return', 'raise'."""
    for st in stmts:
        if isinstance(st, ast.If):
            if visit_test is not None:
                visit_test(st.test, valuation)
            v = eval_guard(st.test, valuation)
            if v is None:
                raise Undecided('test %s not decided by the enumerated domain' % norm(st.test))
            out = run_block(st.body if v else st.orelse, valuation, visit, visit_test)
            if out != 'fall':
                return out
        elif isinstance(st, ast.Break):
            return 'break'
        elif isinstance(st, ast.Continue):
            return 'continue'
        elif isinstance(st, ast.Return):
            visit(st)
            return 'return'
        elif isinstance(st, ast.Raise):
            visit(st)
            return 'raise'
        else:
            visit(st)
    return 'fall'


def flag_valuation(flags, extra=None):
    """flags: {name: bool}.  Atoms: a flag name (truthiness), `x is None` / `x is not None` for names mapped to None/'notnone'
    in `extra`, comparisons decided by `extra` ({text: bool})."""
    extra = extra or {}

    def val(atom):
        t = norm(atom)
        if t in extra:
            return extra[t]
        if isinstance(atom, ast.Name) and atom.id in flags:
            return flags[atom.id]
        return None
    return val


def merge_valuations(*vals):
    def val(atom):
        for v in vals:
            r = v(atom)
            if r is not None:
                return r
        return None
    return val


def region_table(test, x, lo, hi, extra=None):
    """Truth table of `test` over the five regions of x against the closed range [lo, hi] (texts of the three terms)."""
    out = {}
    for name, rank in (('<lo', 0), ('=lo', 1), ('inside', 2), ('=hi', 3), ('>hi', 4)):
        order = {x: rank, lo: 1, hi: 3}
        if extra:
            order.update(extra)
        out[name] = eval_guard(test, order_valuation(order))
    return out


def evaluated_atoms(test, valuation):
    """Atoms of `test` that Python would actually evaluate under `valuation` (short-circuit aware)."""
    out = []

    def go(t):
        if isinstance(t, ast.BoolOp):
            for v in t.values:
                r = go(v)
                if isinstance(t.op, ast.And) and r is False:
                    return False
                if isinstance(t.op, ast.Or) and r is True:
                    return True
            return eval_guard(t, valuation)
        if isinstance(t, ast.UnaryOp) and isinstance(t.op, ast.Not):
            r = go(t.operand)
            return None if r is None else (not r)
        out.append(t)
        return eval_guard(t, valuation)
    go(test)
    return out

"""Provenance (alias / effect) analysis with bottom-up summaries (DESIGN 2.1 layers 5-6).

A *ref* is (root, path): root in {'Self', 'Arg:<p>', 'Fresh:<kind>:<line>:<col>', 'Glob:<name>', 'Imm'}; path is a tuple of
field names and '[*]' (container element).  ('TUPLE', (refs1, refs2, ...)) models the tuples produced by items() /
enumerate() / the settings iterator.  The analysis is a may-analysis, flow-insensitive inside a function except that branches
whose test is decided by the specialised flags are pruned."""
import ast

from .model import norm, call_name, const_val, is_name
from .finite import eval_guard, flag_valuation

MUT_METHODS = {'append', 'extend', 'insert', 'pop', 'remove', 'clear', 'update', 'sort', 'reverse', 'setdefault', 'popitem'}
PURE_BUILTINS = {'len', 'str', 'int', 'bool', 'isinstance', 'type', 'id', 'range', 'min', 'max', 'ord', 'chr', 'hasattr', 'repr',
                 'abs', 'print', 'format', 'float', 'sum', 'any', 'all', 'super', 'iter', 'next'}
CONTAINER_BUILTINS = {'list', 'sorted', 'tuple', 'reversed', 'set', 'dict', 'enumerate', 'zip', 'filter', 'frozenset'}
IMM = ('Imm', ())


def is_fresh(ref):
    return ref[0].startswith('Fresh')


KLIMIT = 5


def klimit(path):
    """k-limiting: paths longer than KLIMIT are cut and marked with '**' (anything reachable below)."""
    if '**' in path:
        return path[:path.index('**') + 1]
    if len(path) <= KLIMIT:
        return path
    return path[:KLIMIT] + ('**',)


def root_kind(ref):
    return ref[0].split(':')[0]


class Summary:
    __slots__ = ('writes', 'returns', 'stores', 'raises', 'ret_elems')

    def __init__(self):
        self.writes = set()    # refs (root Self / Arg:p)
        self.returns = set()   # refs; Fresh refs are returned as ('Fresh:<kind>', ())
        self.stores = set()    # (self path, arg ref): a reference to an argument is kept inside the receiver
        self.raises = False
        self.ret_elems = set() # refs that are elements of a returned fresh container (one level)

    def key(self):
        return (frozenset(self.writes), frozenset(self.returns), frozenset(self.stores), frozenset(self.ret_elems))


class Heap:
    def __init__(self, model):
        self.m = model
        self.ro = model.roles
        self.summaries = {}      # (qual, flags key) -> Summary
        self.in_progress = set()
        self.field_kind = {}
        ro = self.ro
        self.obj_fields = {
            'AnsiString': {ro.TEXT: 'str', ro.TABLE: 'dict:' + ro.POINT},
            ro.POINT: {ro.START: 'list:SETTING', ro.STOP: 'list:SETTING'},
            'AnsiStr': {ro.WRAPPED: 'obj:AnsiString'},
            'AnsiFormat': {'_ansi_settings': 'list:SETTING'},
            ro.ITERATOR: {'settings_dict': 'dict:' + ro.POINT, ro.ACTIVE: 'list:SETTING'},
            '_AnsiCharIterator': {'s': 'obj:AnsiString'},
            '_AnsiStrCharIterator': {'s': 'obj:AnsiString'},
        }
        self.method_owners = {}
        for c in model.classes.values():
            for n in c.methods:
                self.method_owners.setdefault(n, []).append(c.name)
        # containers that live at module or class level and are filled at run time (caches, registries): what they hold outlives every call
        def is_container(v):
            return isinstance(v, (ast.Dict, ast.List, ast.Set)) or (isinstance(v, ast.Call) and isinstance(v.func, ast.Name) and
                                                                       v.func.id in ('dict', 'list', 'set', 'OrderedDict', 'defaultdict'))
        written = set()
        for mod in model.mods.values():
            for n in ast.walk(mod.tree):
                tgt = None
                if isinstance(n, ast.Subscript) and isinstance(n.ctx, (ast.Store, ast.Del)):
                    tgt = n.value
                elif isinstance(n, ast.Call) and isinstance(n.func, ast.Attribute) and n.func.attr in ('append', 'extend', 'update', 'setdefault', 'add', 'insert'):
                    tgt = n.func.value
                if isinstance(tgt, ast.Name):
                    written.add(tgt.id)
                elif isinstance(tgt, ast.Attribute) and isinstance(tgt.value, ast.Name):
                    written.add(tgt.attr)
        self.stores = {}         # name (module level) or attribute (class level) -> kind
        for mod in model.mods.values():
            for st in mod.tree.body:
                tgt, val = (st.targets[0], st.value) if isinstance(st, ast.Assign) and len(st.targets) == 1 else \
                    (st.target, st.value) if isinstance(st, ast.AnnAssign) else (None, None)
                if isinstance(tgt, ast.Name) and val is not None and is_container(val) and tgt.id in written:
                    in_funcs = any(isinstance(x, ast.Name) and x.id == tgt.id for fd in ast.walk(mod.tree) if isinstance(fd, ast.FunctionDef) for x in ast.walk(fd))
                    if in_funcs:
                        self.stores[tgt.id] = 'dict:?' if isinstance(val, ast.Dict) or (isinstance(val, ast.Call) and 'dict' in val.func.id.lower()) else 'list:?'
                if isinstance(st, ast.ClassDef):
                    for x in st.body:
                        tgt, val = (x.targets[0], x.value) if isinstance(x, ast.Assign) and len(x.targets) == 1 else \
                            (x.target, x.value) if isinstance(x, ast.AnnAssign) else (None, None)
                        if isinstance(tgt, ast.Name) and val is not None and is_container(val) and tgt.id in written:
                            self.stores[st.name + '.' + tgt.id] = 'dict:?' if isinstance(val, ast.Dict) or (
                                isinstance(val, ast.Call) and 'dict' in val.func.id.lower()) else 'list:?'

    # -- kinds ---------------------------------------------------------------------------------------------------
    def kind_of(self, ref, ctx):
        """'obj:<Class>' | 'list:<elem>' | 'dict:<elem>' | 'str' | 'imm' | 'tuple' | '?'"""
        root, path = ref
        if root == 'TUPLE':
            return 'tuple'
        if root == 'Imm':
            return 'imm'
        if root.startswith('Fresh'):
            base = root.split(':')[1]
            k = {'list': 'list:?', 'dict': 'dict:?', 'iter': 'iter', 'imm': 'imm', 'str': 'str', 'iterlist': 'list:SETTING'}.get(base, 'obj:' + base)
        elif root == 'Self':
            k = 'obj:' + (ctx.func.cls or '?')
        elif root.startswith('Arg:'):
            k = ctx.arg_kind(root[4:])
        elif root.startswith('Glob:'):
            k = 'dict:' + root[5:]        # an Enum class: a mapping name -> member object
        elif root.startswith('Store:'):
            k = self.stores.get(root[6:], 'dict:?')
        else:
            k = '?'
        for fld in path:
            if fld == '[*]':
                if k.startswith(('list:', 'dict:')):
                    e = k.split(':', 1)[1]
                    k = 'setting' if e == 'SETTING' else ('obj:' + e if e not in ('?',) else '?')
                else:
                    k = '?'
            else:
                cls = k[4:] if k.startswith('obj:') else None
                k = self.obj_fields.get(cls, {}).get(fld, '?') if cls else '?'
        return k

    # -- summaries -----------------------------------------------------------------------------------------------
    def summary(self, qual, flags=None):
        flags = dict(flags or {})
        f = self.m.funcs.get(qual)
        if f is None:
            return None
        flags = {k: v for k, v in flags.items() if k in f.params or k in f.kwonly}
        key = (qual, tuple(sorted(flags.items())))
        if key in self.summaries:
            return self.summaries[key]
        if key in self.in_progress:
            return Summary()    # recursion: optimistic start, refined by the outer fixpoint
        self.in_progress.add(key)
        try:
            prev = None
            for _ in range(4):
                a = FnAnalysis(self, f, flags)
                a.run()
                s = a.to_summary()
                self.summaries[key] = s
                if prev is not None and prev == s.key():
                    break
                prev = s.key()
        finally:
            self.in_progress.discard(key)
        return self.summaries[key]

    def analyse(self, qual, flags=None):
        f = self.m.fn(qual)
        a = FnAnalysis(self, f, dict(flags or {}))
        a.run()
        return a


class FnAnalysis:
    def __init__(self, heap, func, flags):
        self.H = heap
        self.m = heap.m
        self.ro = heap.ro
        self.func = func
        self.flags = flags
        self.env = {}
        self.elems = {}       # fresh root -> set of element refs
        self.fields = {}      # (fresh root, attr) -> set of refs
        self.writes = []      # (ref, node, description)
        self.returns = []     # (refs, node)
        self.ctor_sites = []  # (call node, class name, {param: refs})
        self.attr_stores = [] # (base refs, attr, value refs, node)
        self.evaluated = []   # (refs, node) of every evaluated sub-expression (for alias-safety checks)
        self.raises = False
        self.changed = False
        a = func.node.args
        for i, p in enumerate(func.params):
            if i == 0 and func.self_name == p:
                self.env[p] = {('Self', ())}
            else:
                self.env[p] = {('Arg:' + p, ())}
        for p in func.kwonly:
            self.env[p] = {('Arg:' + p, ())}
        if func.vararg:
            self.env[func.vararg] = {('Arg:' + func.vararg, ())}
        if func.kwarg:
            self.env[func.kwarg] = {('Arg:' + func.kwarg, ())}
        if func.name == '__new__' and func.params:
            self.env[func.params[0]] = {IMM}

    # ------------------------------------------------------------------------------------------------------------
    def arg_kind(self, p):
        f = self.func
        ann = None
        a = f.node.args
        for x in a.posonlyargs + a.args + a.kwonlyargs + ([a.vararg] if a.vararg else []):
            if x.arg == p and x.annotation is not None:
                ann = norm(x.annotation)
        if p == f.vararg:
            return 'list:?'
        if ann:
            has_s = 'AnsiString' in ann
            if ann in ("'AnsiString'", 'AnsiString'):
                return 'obj:AnsiString'
            if ann in ("'AnsiStr'", 'AnsiStr'):
                return 'obj:AnsiStr'
            if ann in ('str', 'int', 'bool', 'bytes'):
                return 'imm'
            if has_s:
                return 'obj:AnsiString'     # Union[str, AnsiString, AnsiStr]: the mutable alternative
            if 'List[AnsiSetting]' in ann:
                return 'list:SETTING'
            if ann.startswith('Dict[int'):
                return 'dict:' + self.ro.POINT
            if ann.startswith('Dict['):
                return 'dict:?'
        return '?'

    def fresh(self, node, kind, elems=()):
        r = ('Fresh:%s:%d:%d' % (kind, getattr(node, 'lineno', 0), getattr(node, 'col_offset', 0)), ())
        cur = self.elems.setdefault(r[0], set())
        before = len(cur)
        cur.update(elems)
        if len(cur) != before:
            self.changed = True
        return {r}

    def elem_of(self, refs):
        out = set()
        for r in refs:
            if r[0] == 'TUPLE':
                for comp in r[1]:
                    out |= set(comp)
            elif r[0] == 'Imm':
                out.add(IMM)
            elif is_fresh(r) and not r[1]:
                out |= self.elems.get(r[0], set())
            else:
                out.add((r[0], klimit(r[1] + ('[*]',))))
        return out

    def iter_elems(self, refs):
        """What iterating the value yields: the keys of a dict (immutable), the elements of anything else."""
        out = set()
        for r in refs:
            if r[0] not in ('TUPLE', 'Imm') and self.H.kind_of(r, self).startswith('dict'):
                out.add(IMM)
            else:
                out |= self.elem_of({r})
        return out

    def field(self, refs, attr):
        out = set()
        for r in refs:
            if r[0] in ('TUPLE',):
                continue
            if r[0] == 'Imm':
                out.add(IMM)
                continue
            if is_fresh(r) and not r[1] and (r[0], attr) in self.fields:
                out |= self.fields[(r[0], attr)]
            out.add((r[0], klimit(r[1] + (attr,))))
        return out

    def write(self, refs, node, desc):
        for r in refs:
            if r[0] in ('TUPLE', 'Imm'):
                continue
            self.writes.append((r, node, desc))

    def bind(self, target, refs):
        if isinstance(target, ast.Name):
            self.env[target.id] = set(refs)
        elif isinstance(target, (ast.Tuple, ast.List)):
            for i, t in enumerate(target.elts):
                sub = set()
                for r in refs:
                    if r[0] == 'TUPLE':
                        if i < len(r[1]):
                            sub |= set(r[1][i])
                    elif r[0] == 'Imm':
                        sub.add(IMM)
                    else:
                        sub.add((r[0], r[1] + ('[*]',)))
                self.bind(t, sub)
        elif isinstance(target, ast.Starred):
            self.bind(target.value, refs)
        elif isinstance(target, ast.Attribute):
            base = self.ev(target.value)
            self.attr_stores.append((base, target.attr, refs, target))
            self.write({(b[0], b[1] + (target.attr,)) for b in base if b[0] not in ('TUPLE', 'Imm')}, target, 'set .' + target.attr)
            for b in base:
                if is_fresh(b) and not b[1]:
                    cur = self.fields.setdefault((b[0], target.attr), set())
                    before = len(cur)
                    cur |= refs
                    if len(cur) != before:
                        self.changed = True
        elif isinstance(target, ast.Subscript):
            base = self.ev(target.value)
            self.write(base, target, 'setitem')
            add = self.elem_of(refs) if isinstance(target.slice, ast.Slice) else refs
            for b in base:
                if is_fresh(b) and not b[1]:
                    cur = self.elems.setdefault(b[0], set())
                    before = len(cur)
                    cur |= add
                    if len(cur) != before:
                        self.changed = True

    # -- expressions ---------------------------------------------------------------------------------------------
    def ev(self, e):
        r = self._ev(e)
        self.evaluated.append((r, e))
        return r

    def _ev(self, e):
        if e is None:
            return set()
        if isinstance(e, ast.Constant):
            return {IMM}
        if isinstance(e, ast.Name):
            if e.id in self.env:
                return set(self.env[e.id])
            if e.id in self.m.classes and any('Enum' in b for b in self.m.classes[e.id].bases):
                return {('Glob:' + e.id, ())}
            if e.id == '__class__' or e.id in self.m.classes:
                return {IMM}
            if e.id in self.H.stores:
                return {('Store:' + e.id, ())}        # a module-level container filled at run time
            return {IMM} if e.id in ('None', 'True', 'False') else set()
        if isinstance(e, ast.Attribute) and isinstance(e.value, ast.Name) and e.value.id not in self.env and \
                (e.value.id == '__class__' or e.value.id in self.m.classes or e.value.id in ('self', 'cls')):
            cn_ = (self.func.cls if e.value.id in ('__class__', 'self', 'cls') else e.value.id) or ''
            if cn_ + '.' + e.attr in self.H.stores:
                return {('Store:' + cn_ + '.' + e.attr, ())}
        if isinstance(e, ast.Attribute):
            base = self.ev(e.value)
            if base and all(b[0].startswith('Glob:') and not b[1] for b in base) and e.attr not in ('value', 'name'):
                meth = self.m.classes[next(iter(base))[0][5:]].methods
                if e.attr not in meth:
                    return {(b[0], ('[*]',)) for b in base}
            # a @property of a package class is a call
            out = set()
            hit = False
            for b in base:
                k = self.H.kind_of(b, self)
                if k.startswith('obj:'):
                    pf = self.m.classes.get(k[4:], _Empty).methods.get(e.attr)
                    if pf is not None and getattr(pf, 'is_property', False):
                        hit = True
                        s = self.H.summary(pf.qual, {})
                        out |= self._apply_summary(e, s, {b}, pf, e, {})
                        continue
                out |= self.field({b}, e.attr)
            return out
        if isinstance(e, ast.Subscript):
            base = self.ev(e.value)
            self.ev(e.slice) if not isinstance(e.slice, ast.Slice) else [self.ev(x) for x in (e.slice.lower, e.slice.upper, e.slice.step) if x is not None]
            # obj[...] on an AnsiString-kinded value is a method call
            kinds = {self.H.kind_of(b, self) for b in base}
            if any(k in ('obj:AnsiString', 'obj:AnsiStr') for k in kinds):
                cls = 'AnsiString' if 'obj:AnsiString' in kinds else 'AnsiStr'
                return self.apply_call(e, '%s.__getitem__' % cls, base, [set()], {})
            if isinstance(e.slice, ast.Slice):
                if kinds and kinds <= {'str', 'imm'}:
                    return {IMM}
                return self.fresh(e, 'list', self.elem_of(base))
            return self.elem_of(base)
        if isinstance(e, ast.Starred):
            return self.ev(e.value)
        if isinstance(e, (ast.List, ast.Tuple, ast.Set)):
            el = set()
            for x in e.elts:
                if isinstance(x, ast.Starred):
                    el |= self.elem_of(self.ev(x.value))
                else:
                    el |= self.ev(x)
            return self.fresh(e, 'list', el)
        if isinstance(e, ast.Dict):
            el = set()
            for k, v in zip(e.keys, e.values):
                if k is not None:
                    self.ev(k)
                el |= self.ev(v)
            return self.fresh(e, 'dict', el)
        if isinstance(e, (ast.ListComp, ast.GeneratorExp, ast.SetComp, ast.DictComp)):
            for g in e.generators:
                self.bind(g.target, self.iter_elems(self.ev(g.iter)))
                for c in g.ifs:
                    self.ev(c)
            if isinstance(e, ast.DictComp):
                self.ev(e.key)
                el = self.ev(e.value)
                return self.fresh(e, 'dict', el)
            return self.fresh(e, 'list', self.ev(e.elt))
        if isinstance(e, ast.BoolOp):
            out = set()
            for v in e.values:
                out |= self.ev(v)
            return out
        if isinstance(e, ast.IfExp):
            self.ev(e.test)
            v = self.decide(e.test)
            if v is True:
                return self.ev(e.body)
            if v is False:
                return self.ev(e.orelse)
            return self.ev(e.body) | self.ev(e.orelse)
        if isinstance(e, ast.UnaryOp):
            self.ev(e.operand)
            return {IMM}
        if isinstance(e, ast.Compare):
            self.ev(e.left)
            for c in e.comparators:
                self.ev(c)
            return {IMM}
        if isinstance(e, ast.BinOp):
            l, r = self.ev(e.left), self.ev(e.right)
            lk = {self.H.kind_of(x, self) for x in l}
            if isinstance(e.op, ast.Add) and any(k == 'obj:AnsiString' for k in lk):
                return self.apply_call(e, 'AnsiString.__add__', l, [r], {})
            if isinstance(e.op, ast.Add) and any(k == 'obj:AnsiStr' for k in lk):
                return self.apply_call(e, 'AnsiStr.__add__', l, [r], {})
            if isinstance(e.op, (ast.Add, ast.Mult)) and any(k.startswith('list') for k in lk | {self.H.kind_of(x, self) for x in r}):
                return self.fresh(e, 'list', self.elem_of(l) | self.elem_of(r))
            return {IMM}
        if isinstance(e, ast.JoinedStr):
            for v in e.values:
                if isinstance(v, ast.FormattedValue):
                    self.ev(v.value)
            return {IMM}
        if isinstance(e, ast.Call):
            return self.ev_call(e)
        if isinstance(e, ast.Lambda):
            return {IMM}
        return set()

    def decide(self, test):
        if not self.flags:
            return None
        extra = {}
        for k, v in self.flags.items():
            extra['%s is None' % k] = (v is None)
            extra['%s is not None' % k] = (v is not None)
        return eval_guard(test, flag_valuation({k: bool(v) for k, v in self.flags.items()}, extra))

    def ev_call(self, e):
        f = e.func
        argrefs = [self.ev(a.value) if isinstance(a, ast.Starred) else self.ev(a) for a in e.args]
        kwrefs = {k.arg: self.ev(k.value) for k in e.keywords}
        name = call_name(e)
        ro = self.ro
        if isinstance(f, ast.Name):
            if name == ro.ITERATOR:
                tbl = argrefs[0] if argrefs else set()
                it = ('Fresh:iterlist:%d:%d' % (e.lineno, e.col_offset), ())
                self.elems.setdefault(it[0], set()).update(self.elem_of(self.field(self.elem_of(tbl), ro.START)))
                r = self.fresh(e, 'iter')
                self.elems[next(iter(r))[0]] = {('TUPLE', (frozenset({IMM}), frozenset(self.elem_of(tbl)), frozenset({it})))}
                return r
            if name in self.m.classes:
                return self.construct(e, name, argrefs, kwrefs)
            if name in CONTAINER_BUILTINS:
                el = set()
                if name == 'enumerate':
                    inner = self.elem_of(argrefs[0]) if argrefs else set()
                    r = self.fresh(e, 'list')
                    self.elems[next(iter(r))[0]] = {('TUPLE', (frozenset({IMM}), frozenset(inner)))}
                    return r
                if name == 'zip':
                    r = self.fresh(e, 'list')
                    self.elems[next(iter(r))[0]] = {('TUPLE', tuple(frozenset(self.elem_of(a)) for a in argrefs))}
                    return r
                for a in argrefs:
                    el |= self.elem_of(a)
                return self.fresh(e, 'dict' if name == 'dict' else 'list', el)
            if name in PURE_BUILTINS:
                if name == 'str' and argrefs:
                    # str(x) on an AnsiString renders it: pure (E3 checks __str__/to_str)
                    pass
                if name == 'iter' and argrefs:
                    return argrefs[0]
                return {IMM}
            if name in self.m.funcs and self.m.funcs[name].cls is None:
                return self.apply_call(e, name, None, argrefs, kwrefs)
            if name in ('copy', 'deepcopy') and argrefs and name not in self.env:      # from copy import copy
                return self.ev(ast.copy_location(ast.Call(func=ast.Attribute(value=ast.Name(id='copy', ctx=ast.Load()), attr=name, ctx=ast.Load()),
                                                          args=e.args, keywords=e.keywords), e))
            return {IMM}
        if isinstance(f, ast.Attribute) and isinstance(f.value, ast.Name) and f.value.id == 'copy' and f.value.id not in self.env \
                and name in ('copy', 'deepcopy') and argrefs:
            # copy.copy(x) / copy.deepcopy(x): a class whose __copy__ / __deepcopy__ hands back self makes the "copy" the object itself
            hook = '__copy__' if name == 'copy' else '__deepcopy__'
            for c in self.m.classes.values():
                h = c.methods.get(hook)
                if h is not None and any(isinstance(n, ast.Return) and n.value is not None and norm(n.value) == h.self_name for n in h.walk()):
                    return set(argrefs[0])
            if name == 'copy':
                return self.fresh(e, 'list', self.elem_of(argrefs[0])) | {r for r in argrefs[0] if r == IMM}
            return self.fresh(e, 'list')
        if isinstance(f, ast.Attribute):
            # static / class-qualified calls
            if isinstance(f.value, ast.Name) and (f.value.id == '__class__' or f.value.id in self.m.classes) and f.value.id not in self.env:
                cls = self.func.cls if f.value.id == '__class__' else f.value.id
                q = '%s.%s' % (cls, name)
                if q in self.m.funcs:
                    callee = self.m.funcs[q]
                    if callee.is_static:
                        return self.apply_call(e, q, None, argrefs, kwrefs)
                    # Class.method(obj, ...) form
                    return self.apply_call(e, q, argrefs[0] if argrefs else set(), argrefs[1:], kwrefs)
                return {IMM}
            if isinstance(f.value, ast.Call) and call_name(f.value) == 'super':
                return self.fresh(e, self.func.cls or '?') if name == '__new__' else {IMM}
            recv = self.ev(f.value)
            kinds = {self.H.kind_of(r, self) for r in recv}
            # container semantics
            is_container = any(k.startswith(('list', 'dict')) for k in kinds)
            if is_container or (name in MUT_METHODS and not any(k.startswith('obj:') and name in self.m.classes.get(k[4:], _Empty).methods for k in kinds)):
                if name in ('items',):
                    r = self.fresh(e, 'list')
                    self.elems[next(iter(r))[0]] = {('TUPLE', (frozenset({IMM}), frozenset(self.elem_of(recv))))}
                    return r
                if name in ('values', 'copy'):
                    return self.fresh(e, 'list' if name == 'values' else ('dict' if any(k.startswith('dict') for k in kinds) else 'list'), self.elem_of(recv))
                if name == 'keys':
                    return self.fresh(e, 'list', {IMM})
                if name == 'get':
                    return self.elem_of(recv) | (argrefs[1] if len(argrefs) > 1 else set())
                if name in MUT_METHODS:
                    if kinds and kinds <= {'imm', 'str', 'setting'}:
                        return {IMM}
                    self.write(recv, e, 'call .%s()' % name)
                    add = set()
                    if name in ('append', 'insert', 'setdefault'):
                        add = argrefs[-1] if argrefs else set()
                    elif name in ('extend', 'update'):
                        add = self.elem_of(argrefs[0]) if argrefs else set()
                    for r in recv:
                        if is_fresh(r) and not r[1] and add:
                            cur = self.elems.setdefault(r[0], set())
                            before = len(cur)
                            cur |= add
                            if len(cur) != before:
                                self.changed = True
                    if name in ('pop', 'setdefault', 'popitem'):
                        return self.elem_of(recv)
                    return {IMM}
                if name in ('index', 'count', 'join', 'format', 'startswith', 'endswith', 'find'):
                    return {IMM}
            # package method
            targets = []
            for k in kinds:
                if k.startswith('obj:') and name in self.m.classes.get(k[4:], _Empty).methods:
                    targets.append('%s.%s' % (k[4:], name))
            if not targets and not (kinds and kinds <= {'imm', 'str', 'tuple', 'setting'}):
                owners = self.H.method_owners.get(name, [])
                unknown = not kinds or any(k == '?' for k in kinds)
                if unknown and owners and name not in ('copy', 'get', 'items', 'keys', 'values', 'format', 'join', 'split', 'strip', 'upper', 'lower',
                                                       'replace', 'find', 'count', 'index', 'encode', 'startswith', 'endswith', 'group', 'start', 'end'):
                    targets = ['%s.%s' % (o, name) for o in owners]
                elif unknown and name == 'copy' and any(r[0] in ('Self',) or r[0].startswith('Arg:') for r in recv):
                    targets = ['AnsiString.copy']
            out = set()
            for q in targets:
                out |= self.apply_call(e, q, recv, argrefs, kwrefs)
            if targets:
                return out
            return {IMM}
        return {IMM}

    def construct(self, e, cls, argrefs, kwrefs):
        c = self.m.classes[cls]
        obj = self.fresh(e, cls)
        init = c.methods.get('__init__') or c.methods.get('__new__')
        if init is None:
            return obj
        from .shapes import bind_call
        bound, _ = bind_call(e, init)
        brefs = {}
        for p, node in bound.items():
            if p == '*extra':
                continue
            if isinstance(node, list):
                continue
            brefs[p] = self.ev(node)
        self.ctor_sites.append((e, cls, brefs, bound))
        if cls == 'AnsiStr':
            # AnsiStr.__new__ returns an immutable value whose wrapped object is a copy or another AnsiStr's wrapped object
            s = self.H.summary('AnsiStr.__new__', {})
            self._apply_summary(e, s, obj, init, e, brefs)
            return obj
        s = self.H.summary('%s.%s' % (cls, init.name), self._call_flags(init, bound))
        self._apply_summary(e, s, obj, init, e, brefs)
        return obj

    def _call_flags(self, callee, bound):
        flags = {}
        for p in callee.params + callee.kwonly:
            if p not in ('inplace', 'make_unique', 'topmost', 'apply'):
                continue
            node = bound.get(p)
            if node is None:
                d = callee.defaults.get(p)
                if d is not None and isinstance(const_val(d, None), bool):
                    flags[p] = const_val(d)
            elif isinstance(const_val(node, None), bool):
                flags[p] = const_val(node)
            elif isinstance(node, ast.Name) and node.id in self.flags:
                flags[p] = self.flags[node.id]
        return flags

    def apply_call(self, e, qual, recv, argrefs, kwrefs):
        callee = self.m.funcs.get(qual)
        if callee is None:
            return {IMM}
        # bind
        brefs = {}
        bound_nodes = {}
        if isinstance(e, ast.Call):
            from .shapes import bind_call
            call = e
            if recv is not None and isinstance(e.func, ast.Attribute) and isinstance(e.func.value, ast.Name) and \
                    (e.func.value.id in self.m.classes) and not callee.is_static and e.args:
                # Class.method(obj, ...) : drop the explicit receiver
                call = ast.Call(func=e.func, args=e.args[1:], keywords=e.keywords)
            bound_nodes, _ = bind_call(call, callee)
            for p, node in bound_nodes.items():
                if isinstance(node, list):
                    rs = set()
                    for x in node:
                        rs |= self.ev(x)
                    brefs[callee.vararg or p] = self.fresh(e, 'list', rs) if False else rs
                elif p == '*':
                    brefs[callee.vararg or '*'] = self.elem_of(self.ev(node)) if callee.vararg is None else self.ev(node)
                else:
                    brefs[p] = self.ev(node)
        else:
            ps = callee.own_params()
            for p, r in zip(ps, argrefs):
                brefs[p] = r
        s = self.H.summary(qual, self._call_flags(callee, bound_nodes))
        if s is None:
            return {IMM}
        return self._apply_summary(e, s, recv, callee, e, brefs)

    def _map(self, ref, recv, brefs, node, for_write=False):
        root, path = ref
        if root == 'TUPLE':
            return {('TUPLE', tuple(frozenset(y for x in comp for y in self._map(x, recv, brefs, node)) for comp in path))}
        if root == 'Self':
            base = recv or set()
        elif root.startswith('Arg:'):
            base = brefs.get(root[4:], set())
        elif root.startswith('Fresh'):
            kind = root.split(':')[1] if ':' in root else 'obj'
            return {('Fresh:%s:%d:%d' % (kind, getattr(node, 'lineno', 0), getattr(node, 'col_offset', 0)), ())}
        else:
            return {ref}
        out = set()
        for b in base:
            if b[0] in ('TUPLE',):
                continue
            if b[0] == 'Imm':
                out.add(IMM)
                continue
            cur = {b}
            walk = path[:-1] if (for_write and path) else path
            for fld in walk:
                cur = self.elem_of(cur) if fld == '[*]' else self.field(cur, fld)
            if for_write and path:
                # the written slot itself: do not dereference what the slot currently points to
                cur = {(c[0], klimit(c[1] + (path[-1],))) for c in cur if c[0] not in ('TUPLE', 'Imm')}
            out |= cur
        return out

    def _apply_summary(self, e, s, recv, callee, node, brefs):
        for w in s.writes:
            self.write(self._map(w, recv, brefs, node, for_write=True), node, 'via %s' % callee.qual)
        for spath, aref in s.stores:
            vals = self._map(aref, recv, brefs, node)
            for b in (recv or set()):
                if is_fresh(b) and not b[1] and spath:
                    cur = self.fields.setdefault((b[0], spath[0]), set())
                    cur |= vals if len(spath) == 1 else set()
            self.attr_stores.append((recv or set(), '.'.join(spath), vals, node))
        if s.raises:
            self.raises = True
        out = set()
        for r in s.returns:
            out |= self._map(r, recv, brefs, node)
        if s.ret_elems:
            mapped = set()
            for r in s.ret_elems:
                mapped |= self._map(r, recv, brefs, node) if not (r[0].startswith('Fresh')) else {
                    ('Fresh:%s:%d:%d' % (r[0].split(':')[1], getattr(node, 'lineno', 0), getattr(node, 'col_offset', 0) + 1), ())}
            for o in out:
                if is_fresh(o) and not o[1]:
                    cur = self.elems.setdefault(o[0], set())
                    before = len(cur)
                    cur |= mapped
                    if len(cur) != before:
                        self.changed = True
        return out or {IMM}

    # -- statements ----------------------------------------------------------------------------------------------
    def run(self):
        env0 = {k: set(v) for k, v in self.env.items()}
        for _ in range(6):
            self.changed = False
            self.env = {k: set(v) for k, v in env0.items()}
            self.writes, self.returns, self.ctor_sites, self.attr_stores, self.evaluated = [], [], [], [], []
            self.block(self.func.body)
            if not self.changed:
                break

    def block(self, stmts):
        for st in stmts:
            self.stmt(st)
            if self._ends(st):
                break       # what follows is unreachable under the specialised flags

    def _ends(self, st):
        if isinstance(st, (ast.Return, ast.Raise)):
            return True
        if isinstance(st, ast.If):
            v = self.decide(st.test)
            if v is True:
                return bool(st.body) and self._ends(st.body[-1])
            if v is False:
                return bool(st.orelse) and self._ends(st.orelse[-1])
            return bool(st.body) and bool(st.orelse) and self._ends(st.body[-1]) and self._ends(st.orelse[-1])
        return False

    def _copy_env(self):
        return {k: set(v) for k, v in self.env.items()}

    def _merge(self, *envs):
        out = {}
        for e in envs:
            for k, v in e.items():
                out.setdefault(k, set()).update(v)
        return out

    def _loop(self, body, pre_bind=None):
        """Iterate a loop body until the environment is stable (join with the entry state)."""
        entry = self._copy_env()
        for _ in range(5):
            before = self._copy_env()
            if pre_bind:
                pre_bind()
            self.block(body)
            self.env = self._merge(before, self.env, entry)
            if self.env == before:
                break

    def stmt(self, st):
        if isinstance(st, ast.Assign):
            v = self.ev(st.value)
            for t in st.targets:
                self.bind(t, v)
        elif isinstance(st, ast.AnnAssign):
            if st.value is not None:
                self.bind(st.target, self.ev(st.value))
        elif isinstance(st, ast.AugAssign):
            v = self.ev(st.value)
            t = st.target
            cur = self.ev(t) if not isinstance(t, ast.Name) else set(self.env.get(t.id, set()))
            kinds = {self.H.kind_of(r, self) for r in cur}
            if isinstance(st.op, ast.Add) and any(k in ('obj:AnsiString',) for k in kinds):
                res = self.apply_call(st, 'AnsiString.__iadd__', cur, [v], {})
                if isinstance(t, ast.Name):
                    self.bind(t, res)
            elif any(k.startswith('list') for k in kinds) or (kinds == {'?'} and isinstance(t, ast.Attribute) and t.attr in (self.ro.START, self.ro.STOP)):
                self.write(cur, st, 'augmented assignment (in-place list extension)')
                for r in cur:
                    if is_fresh(r) and not r[1]:
                        self.elems.setdefault(r[0], set()).update(self.elem_of(v))
                if isinstance(t, ast.Attribute):
                    base = self.ev(t.value)
                    self.write({(b[0], b[1] + (t.attr,)) for b in base if b[0] not in ('TUPLE', 'Imm')}, st, 'set .' + t.attr)
            else:
                if isinstance(t, ast.Attribute):
                    base = self.ev(t.value)
                    self.write({(b[0], b[1] + (t.attr,)) for b in base if b[0] not in ('TUPLE', 'Imm')}, st, 'set .' + t.attr)
                elif isinstance(t, ast.Subscript):
                    self.write(self.ev(t.value), st, 'setitem')
        elif isinstance(st, ast.Delete):
            for t in st.targets:
                if isinstance(t, ast.Subscript):
                    self.ev(t.slice) if not isinstance(t.slice, ast.Slice) else None
                    self.write(self.ev(t.value), st, 'delitem')
                elif isinstance(t, ast.Attribute):
                    base = self.ev(t.value)
                    self.write({(b[0], b[1] + (t.attr,)) for b in base if b[0] not in ('TUPLE', 'Imm')}, st, 'del .' + t.attr)
        elif isinstance(st, ast.Expr):
            self.ev(st.value)
        elif isinstance(st, ast.Return):
            if st.value is not None:
                self.returns.append((self.ev(st.value), st))
            else:
                self.returns.append(({IMM}, st))
        elif isinstance(st, ast.If):
            self.ev(st.test)
            v = self.decide(st.test)
            if v is True:
                self.block(st.body)
            elif v is False:
                self.block(st.orelse)
            else:
                start = self._copy_env()
                self.block(st.body)
                a = self.env
                self.env = start
                self.block(st.orelse)
                a_term = self._terminates(st.body)
                b_term = self._terminates(st.orelse)
                if a_term and not b_term:
                    pass
                elif b_term and not a_term:
                    self.env = a
                else:
                    self.env = self._merge(a, self.env)
        elif isinstance(st, ast.For):
            it = self.ev(st.iter)
            self._loop(st.body, lambda: self.bind(st.target, self.iter_elems(it)))
            self.block(st.orelse)
        elif isinstance(st, ast.While):
            self.ev(st.test)
            self._loop(st.body, lambda: self.ev(st.test))
            self.block(st.orelse)
        elif isinstance(st, ast.Try):
            start = self._copy_env()
            self.block(st.body)
            after_body = self.env
            outs = [after_body]
            for h in st.handlers:
                self.env = self._merge(start, after_body)
                self.block(h.body)
                if not self._terminates(h.body):
                    outs.append(self.env)
            self.env = after_body
            self.block(st.orelse)
            outs[0] = self.env
            self.env = self._merge(*outs)
            self.block(st.finalbody)
        elif isinstance(st, ast.With):
            for it in st.items:
                self.ev(it.context_expr)
            self.block(st.body)
        elif isinstance(st, ast.Raise):
            self.raises = True
            if st.exc is not None:
                self.ev(st.exc)

    @staticmethod
    def _terminates(stmts):
        return bool(stmts) and isinstance(stmts[-1], (ast.Return, ast.Raise, ast.Continue, ast.Break))

    # ------------------------------------------------------------------------------------------------------------
    def to_summary(self):
        s = Summary()
        for r, node, desc in self.writes:
            if r[0] == 'Self' or r[0].startswith('Arg:'):
                s.writes.add(r)
        for refs, node in self.returns:
            for r in refs:
                if r[0] not in ('TUPLE', 'Imm') and self.H.kind_of(r, self) in ('imm', 'str'):
                    s.returns.add(IMM)
                    continue
                s.returns.add(self._generalise(r))
                if is_fresh(r) and not r[1]:
                    for el in self.elems.get(r[0], ()):
                        if el[0] not in ('TUPLE', 'Imm') and self.H.kind_of(el, self) in ('imm', 'str') and not is_fresh(el) \
                                and not (set(el[1]) & {self.ro.START, self.ro.STOP}):
                            s.ret_elems.add(IMM)
                        else:
                            s.ret_elems.add(self._generalise(el))
        if self.func.name in ('__init__',):
            s.returns = set()
        for base, attr, vals, node in self.attr_stores:
            if any(b == ('Self', ()) for b in base):
                for v in vals:
                    if v[0].startswith('Arg:'):
                        s.stores.add(((attr,), v))
        s.raises = self.raises
        return s

    def _generalise(self, r):
        if r[0] == 'TUPLE':
            return ('TUPLE', tuple(frozenset(self._generalise(x) for x in comp) for comp in r[1]))
        if is_fresh(r):
            return ('Fresh:%s' % r[0].split(':')[1], ())
        return r


class _E:
    methods = {}


_Empty = _E()


def get_heap(model):
    h = getattr(model, '_heap', None)
    if h is None:
        h = model._heap = Heap(model)
    return h
